pub fn main(a: [u8; 3], b: bool) -> ([u8; 3], [bool; 2]) {
    ([a[2], a[1], a[0]], [b; 2])
}
