struct S { a: u8, b: (bool, u8) }
fn swap(s: S) -> S {
    S { a: s.b.1, b: (s.b.0, s.a) }
}
pub fn main(s: S, t: u8) -> S {
    let r = swap(s);
    swap(r)
}
