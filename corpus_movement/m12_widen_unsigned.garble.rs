pub fn main(a: u8, b: bool) -> (u16, u8) {
    (a as u16, b as u8)
}
