struct P { x: u8, y: bool, z: i16 }
struct Q { first: i16, second: (bool, u8) }
pub fn main(p: P, k: u8) -> Q {
    let P { x, y, z } = p;
    Q { first: z, second: (y, x) }
}
