pub fn main(a: u8, b: u16) -> (u16, u8) {
    let t = (a, b);
    let (x, y) = t;
    (y, x)
}
