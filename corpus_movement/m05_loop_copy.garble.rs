pub fn main(a: [u16; 3], b: u16) -> [u16; 3] {
    let mut r = [0u16; 3];
    let mut i = 0usize;
    for x in a {
        r[2] = r[1];
        r[1] = r[0];
        r[0] = x;
    }
    r
}
