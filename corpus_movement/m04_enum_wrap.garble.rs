enum E { None, One(u8), Two(u8, bool) }
pub fn main(a: u8, b: bool) -> (E, E, E) {
    (E::One(a), E::Two(a, b), E::None)
}
