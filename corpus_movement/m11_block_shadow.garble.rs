pub fn main(a: u32, b: u32) -> (u32, u32) {
    let x = a;
    let y = {
        let x = b;
        x
    };
    (y, x)
}
