pub fn main(a: (u8, u16, bool), b: u16) -> (u8, u16, bool) {
    let mut t = a;
    t.1 = b;
    t.2 = a.2;
    t
}
