pub fn main(a: [u8; 4], b: u8) -> [u8; 4] {
    let mut r = a;
    r[0] = a[3];
    r[3] = b;
    r[1usize] = a[2usize];
    r
}
