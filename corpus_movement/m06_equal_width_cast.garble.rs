pub fn main(a: u8, b: i16) -> (i8, u16, u8) {
    (a as i8, b as u16, a as u8)
}
