pub fn main(a: [(u8, bool); 2], b: (u8, [bool; 2])) -> ((u8, bool), bool, u8) {
    (a[1], b.1[0], a[0].0)
}
