enum Richest {
    IsA,
    IsB,
    Tie,
}

pub fn main(a: u64, b: u64) -> Richest {
    if a > b {
        Richest::IsA
    } else if b > a {
        Richest::IsB
    } else {
        Richest::Tie
    }
}
