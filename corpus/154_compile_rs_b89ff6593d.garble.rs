
pub fn main(i: usize) -> i32 {
    [-2, -1, 0, 1, 2][i]
}