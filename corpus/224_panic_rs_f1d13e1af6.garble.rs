
pub fn main(x: i32) -> i32 {
    match x {
        0i32 => 0i32,
        1i32 => 1i32 / 0i32,
        2i32 => 2i32,
        3i32 => (200u8 + 200u8) as i32,
        _ => 3i32,
    }
}