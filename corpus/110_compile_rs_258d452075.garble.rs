
pub fn main(x: i8, i: usize) -> i8 {
    [x; 3][i]
}
