
pub fn main(x: i32) -> i32 {
  let y = {
    let z = 1i32;
    z
  };
  z
}
