
pub fn main(x: u16) -> u16 {
    x + i32
}
