
  pub fn main(x: u8) -> u8 {
    rec_fn(x)
  }

  fn rec_fn(x: u8) -> u8 {
    if x == 0u8 {
      0u8
    } else {
      rec_fn(x - 1u8)
    }
  }
  