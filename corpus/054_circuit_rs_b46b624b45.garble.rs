
const ROWS_0: usize = PARTY_0::ROWS_0;
const ROWS_1: usize = PARTY_1::ROWS_1;
pub fn main(rows0: [([u8; 8], u32); ROWS_0], rows1: [([u8; 8], u32); ROWS_1]) -> u32 {
    let mut result = 0u32;
    for row0 in rows0 {
        for row1 in rows1 {
            let (id0, a) = row0;
            let (id1, b) = row1;
            if id0 == id1 {
                result = result + a + b;
            }
        }
    }
    result
}
