
pub fn main(rows1: [([u8; 3], u16); 4], rows2: [([u8; 3], u16, u16); 3]) -> u16 {
    let mut result = 0u16;
    for row in join(rows1, rows2) {
        let (in_join, (_, field1), (_, field2, field3)) = row;
        if in_join {
            result = result + field1 + field2 + field3;
        }
    }
    result
}
