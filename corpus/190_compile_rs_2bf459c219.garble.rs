
const MY_CONST: usize = max(PARTY_0::MY_CONST, PARTY_1::MY_CONST);
pub fn main(array: [u16; MY_CONST], _: u8) -> u16 {
    let mut result = 0u16;
    for elem in array {
        result = result + elem;
    }
    result
}
