
const MY_CONST: u16 = PARTY_0::MY_CONST;
pub fn main(x: u16) -> u16 {
    x + MY_CONST
}
