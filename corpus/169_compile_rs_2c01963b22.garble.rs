
pub fn main(x: i32, b: bool) -> i32 {
    let mut y = 0;
    if b {
        y = x;
    }
    y
}
