
pub fn main(a: u32, b: u32, c: u32) -> u32 {
    a & (b & a)
}
