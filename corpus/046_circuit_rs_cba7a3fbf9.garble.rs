
pub fn main(arr1: [u32; 2], arr2: [u32; 2], choice: bool) -> [u8; 8] {
    let arr = if choice { arr1 } else { arr2 };
    [
        (arr[0] >> 24u8) as u8,
        (arr[0] >> 16u8) as u8,
        (arr[0] >> 8u8) as u8,
        arr[0] as u8,
        (arr[1] >> 24u8) as u8,
        (arr[1] >> 16u8) as u8,
        (arr[1] >> 8u8) as u8,
        arr[1] as u8,
    ]
}
