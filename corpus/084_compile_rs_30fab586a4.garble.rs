
pub fn main(x: bool, y: u8) -> u16 {
    x as u16 + y as u16
}
