
pub fn main(x: i32) -> i32 {
    let mut y = 0;
    match x {
        0 => 2u8,
        1..10 => {
            y = 1;
        },
        10..100 => {
            y = 2;
        },
        _ => {
            y = 3;
        }
    }
    y
}
