
pub fn main(x: i32) -> i32 {
    let y = x + 1;
    let z = {
        let y = x + 10;
        y
    };
    y
}
