
const ROWS_0: usize = PARTY_0::ROWS_0;
const ROWS_1: usize = PARTY_1::ROWS_1;
pub fn main(rows0: [([u8; 8], u32); ROWS_0], rows1: [([u8; 8], u32); ROWS_1]) -> u32 {
    let mut result = 0u32;
    for joined in join_iter(rows0, rows1) {
        let ((_, a), (_, b)) = joined;
        result = result + a + b;
    }
    result
}
