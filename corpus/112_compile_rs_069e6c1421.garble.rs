
pub fn main(x: i8, i: usize, j: usize) -> i8 {
    let mut arr = [x; true];
    arr[i] = x * 2;
    arr[j]
}
