
pub fn main(x: bool) -> u8 {
    let t = (-3, -2i16, -1i8, true, false);
    t.u8
}
