
pub fn main(_x: u8) -> i32 {
    let arr = 1..101;
    let mut acc = 0;
    for i in arr {
        acc = acc + i as i32;
    }
    acc
}
