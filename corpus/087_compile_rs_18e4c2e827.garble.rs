
pub fn main(x: i8) -> i8 {
    x
}
