
pub fn main(x: i8, i: usize) -> i8 {
    [x; +][i]
}
