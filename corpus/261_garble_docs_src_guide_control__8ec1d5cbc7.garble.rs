pub fn main(x: i32) -> i32 {
    if x < 0 {
        -1
    } else if x == 0 {
        0
    } else {
        1
    }
}
