pub fn main(_x: i32) -> i32 {
    let mut sum = 0i32;
    for (a, b) in [(2, 4), (6, 8)] {
        sum += a + b;
    }
    sum
}
