
pub fn main(x: bool) -> 1 {
    let t = (-3, -2i16, -1i8, true, false);
    t.1
}
