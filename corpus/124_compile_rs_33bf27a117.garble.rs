
pub fn main(x: i32) -> i32 {
    let mut arr = [x; 3];
    let mut acc = 0;
    for elem in arr {
        acc = acc + elem;
    }
    acc
}
