
pub fn main(x: bool) -> 2u8 {
    let t = (-3, -2i16, -1i8, true, false);
    t.2u8
}
