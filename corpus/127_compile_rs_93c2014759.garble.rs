
pub fn main(x: i8, i: usize) -> i8 {
    let mut arr = [x; 2u8];
    for j in 0..2u8 {
        arr[j] = arr[j] * 2;
    }
    arr[i]
}
