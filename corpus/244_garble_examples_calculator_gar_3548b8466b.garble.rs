enum Op {
    Add,
    Sub,
    Mul,
    Div,
    Min,
    Max,
}

enum OpResult {
    Ok(u8),
    DivByZero,
}

pub fn main(values: (u8, u8), op: Op) -> OpResult {
    match (op, values) {
        (Op::Add, (x, y)) => OpResult::Ok(x + y),
        (Op::Sub, (x, y)) => OpResult::Ok(x - y),
        (Op::Mul, (x, y)) => OpResult::Ok(x * y),
        (Op::Min, (x, y)) => OpResult::Ok(if x < y { x } else { y }),
        (Op::Max, (x, y)) => OpResult::Ok(if x > y { x } else { y }),
        (Op::Div, (x, 0)) => OpResult::DivByZero,
        (Op::Div, (x, y)) => OpResult::Ok(x / y),
    }
}
