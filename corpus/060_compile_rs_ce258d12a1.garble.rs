
pub fn main(x: bool) -> bool {
    x ^ u8
}
