
pub fn main(b: bool) -> bool {
    b || [true; 0][1]
}
