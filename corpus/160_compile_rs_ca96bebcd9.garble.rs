
    pub fn main(income: u32) -> bool {
      let mut points = 0;

      if income >= 10000 {
        points = points + 200
      } else if income >= 2000 {
        points = points + 50
      } else {
        points = points + 0
      }

      if points > 150 {
        true
      } else {
        false
      }
    }

    