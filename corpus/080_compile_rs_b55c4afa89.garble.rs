
pub fn main(x: u16, y: u16, z: u16) -> u16 {
    x | (y & (z ^ 2))
}
