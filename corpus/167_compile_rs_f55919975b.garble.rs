
struct FooBar {
    foo: i32,
    bar: (i32, i32),
    baz: (i32, i32, i32),
}

pub fn main(x: i32) -> i32 {
    let foobar = FooBar {
        foo: 1,
        bar: (2, 3),
        baz: (4, 5, 6),
    };
    match x {
        0 => {
            let FooBar { foo, .. } = foobar;
            foo
        },
        1 => {
            let FooBar { bar, .. } = foobar;
            let (x, y) = bar;
            y
        },
        _ => {
            let FooBar { baz, .. } = foobar;
            let (x, y, z) = baz;
            z
        }
    }
}
