pub fn main(party_a: bool, party_b: bool) -> bool {
    party_a & party_b
}
