
pub fn main(x: bool) -> [bool; 3] {
  [x, x]
}
