
pub fn main(b: bool) -> bool {
    !!b
}
