
struct Foo {
  foo: u16
}
pub fn main(a: u16, b: u16) -> u16 {
    let mut f = Foo { foo: 0 };
    f.foo += a;
    f.foo += b;
    f.foo
}
