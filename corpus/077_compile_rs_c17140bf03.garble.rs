
pub fn main(x: u16) -> u16 {
    let y = x + 1;
    y + 1
}
