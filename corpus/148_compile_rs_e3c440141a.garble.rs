
enum Ops {
    Mul(u8, u8),
    Div(u8, u8),
}

pub fn main(choice: u8, x: u8, y: u8) -> u8 {
    let op = if choice == 0 {
        Ops::Mul(x, y)
    } else {
        Ops::Div(x, y)
    };

    match op {
        Ops::Div(x, 0) => 42,
        Ops::Div(x, y) => x / y,
        Ops::Mul(x, y) => x * y,
    }
}
