
    pub fn main(x: u64, y: u64) -> u64 {
        x + 4
    }
    