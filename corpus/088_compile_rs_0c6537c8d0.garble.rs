
pub fn main(x: i8, y: i8) -> i8 {
    x + y
}
