pub fn main(a: u32, b: u32) -> [u32; 4] {
    let array1 = [a, b, 0u32, 1u32]; // directly listing all elements
    let array2 = [a; 4]; // `a` repeated 4 times
    array2
}
