
  pub fn main(x: u8) -> u8 {
    x
  }

  fn unused(x: u8) -> u8 {
    x + 1u8
  }
  