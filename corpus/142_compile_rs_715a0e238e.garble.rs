
pub fn main(x: bool) -> i32 {
    let t = (-3, -2i16, -1i8, true, false);
    t.i32
}
