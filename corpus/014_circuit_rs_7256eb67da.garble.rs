
pub fn main(x: u32) -> [u32; 17] {
    [
        0 & x, x & 0,
        0 | x, x | 0,
        0 ^ x, x ^ 0,
        1 & x, x & 1,
        1 | x, x | 1,
        x & x, x & !x,
        x | x, x | !x,
        x ^ x, x ^ !x,
        !!x,
    ]
}
