
pub fn main(i: usize) -> i32 {
    let mut updated = [1i32, 2i32, 3i32];
    updated[i] = 0i32;
    updated[0]
}
