
pub fn main(values: (u8, u8)) -> (u8, u8) {
    (values.0 + 1, values.1 + 1)
}
