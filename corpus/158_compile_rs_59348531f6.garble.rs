
pub fn main(nums: [u8; 5], init: u16) -> [u8; 5] {
    let mut sum = init;
    for n in nums {
        sum = sum + n as u16;
    }
    let mut nums = [0u8; 5];
    for i in 0..5 {
        nums[i] = sum as u8;
    }
    nums
}
