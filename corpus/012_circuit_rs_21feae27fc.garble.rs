
pub fn main(_x: i32) -> i32 {
    1i32 + 2i32 + 3i32 + 4i32
}
