
pub fn main(x: bool) -> bool {
    !x
}
