pub fn main(a: i32, b: u64) -> (i32, u64, i64) {
    let sum = (a as i64) + (b as i64);
    let tuple = (a, b, sum);
    let a = tuple.0;
    let b = tuple.1;
    let sum = tuple.2;
    let (a, b, sum) = tuple;
    tuple
}
