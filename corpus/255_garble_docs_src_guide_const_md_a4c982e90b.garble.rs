const MY_CONST: usize = PARTY_0::MY_CONST;

pub fn main(x: u16) -> u16 {
    let array = [2u16; MY_CONST];
    x + array[1]
}
