pub fn main(_a: i32, _b: i32) -> () {
    let add = 0 + 1;
    let sub = 1 - 1;
    let mul = 2 * 1;
    let div = 2 / 1;
    let rem = 5 % 2;

    let bit_xor = 4u32 ^ 6;
    let bit_and = 4u32 & 6;
    let bit_or = 4u32 | 6;
    let bit_shiftl = 4u32 << 1;
    let bit_shiftr = 4u32 >> 1;

    let and = true & false;
    let or = true | false;

    let eq = true == false;
    let neq = true != false;

    let gt = 5 > 4;
    let lt = 4 < 5;
    let gte = 5 >= 4;
    let lte = 4 <= 5;

    let unary_not = !true;
    let unary_minus = -5;
    let unary_bitflip = !5u32;
}
