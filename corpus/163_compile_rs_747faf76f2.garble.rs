
struct FooBarBaz {
    foo: i32,
    bar: u8,
    baz: bool,
}

pub fn main(x: FooBarBaz) -> FooBarBaz {
    match x {
        FooBarBaz { foo: 1, bar: 0, baz: false } => FooBarBaz { baz: true, foo: 1, bar: 1 },
        FooBarBaz { foo: 1, baz, bar: 0 } => FooBarBaz { foo: 1, bar: 1, baz },
        FooBarBaz { bar, baz: false, foo } => FooBarBaz { foo, bar, baz: true },
        FooBarBaz { foo, bar, baz } => FooBarBaz { foo, bar: 1, baz },
        FooBarBaz { foo, .. } => FooBarBaz { foo, bar: 1, baz: true },
    }
}
