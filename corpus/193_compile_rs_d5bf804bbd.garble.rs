
const ROWS_0: usize = PARTY_0::ROWS;
const ROWS_1: usize = PARTY_1::ROWS;

pub fn main(rows1: [[u8; 3]; ROWS_0], rows2: [[u8; 3]; ROWS_1]) -> [(bool, [u8; 3]); const { ROWS_0 + ROWS_1 - 1usize } ] {
    join(rows1, rows2)
}
