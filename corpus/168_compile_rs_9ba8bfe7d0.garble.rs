
pub fn main(x: i32) -> i32 {
    let mut y = 0;
    y = x;
    y
}
