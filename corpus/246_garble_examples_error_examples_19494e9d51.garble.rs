pub fn main(x: (bool, (u8, u8))) -> i32 {
    match x {
        (false, _) => 0,
        (_, (_, 0)) => 1,
        (_, (0, y)) => 2,
    }
}
