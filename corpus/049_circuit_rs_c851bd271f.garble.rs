
pub fn main(arr1: [(u16, u16, u32); 8]) -> [((u16, u16), u32); 8] {
    let mut arr2 = [((0u16, 0u16), 0u32); 8];
    let mut i = 0usize;
    for elem in arr1 {
        let (a, b, c) = elem;
        arr2[i] = ((a, b), c);
        i = i + 1usize;
    }
    arr2
}