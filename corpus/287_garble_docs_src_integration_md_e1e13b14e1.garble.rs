use garble_lang::{compile, literal::Literal, token::UnsignedNumType::U32};

// Compile and type-check a simple program to add the inputs of 3 parties:
let code = "pub fn main(x: u32, y: u32, z: u32) -> u32 { x + y + z }";
let prg = compile(code).map_err(|e| e.prettify(&code)).unwrap();
