
pub fn main(x: i32) -> i32 {
    2 * x
}
