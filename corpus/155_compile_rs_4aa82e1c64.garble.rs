

pub fn main(i: usize, arr: [i32; const { 2 + 3 } ]) -> i32 {
    arr[i]
}