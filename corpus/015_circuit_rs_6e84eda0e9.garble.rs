
pub fn main(x: u32) -> [u32; 17] {
    [
        0, 0,
        x, x,
        x, x,
        x, x,
        1, 1,
        x, 0,
        x, 1,
        0, 1,
        x,
    ]
}
