
pub fn main(mode: bool, x: u16, y: u8) -> u16 {
    if mode { (x << y) } else { (x >> y) }
}
    