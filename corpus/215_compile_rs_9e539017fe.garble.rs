
struct Foo {
  foo: u16
}
pub fn main(a: u16, b: u16) -> u16 {
    let mut result: [(u16, Foo); 2] = [(1, Foo { foo: 2 }), (1, Foo { foo: 4 })];
    result[1].0 += a;
    result[1].1.foo += b;
    result[1].0 + result[1].1.foo
}
