
pub fn main(b: bool, x: i32) -> bool {
    if b { x < x } else { x < x }
}
