
fn inc(x: u16) -> u16 {
  x + 1u16
}

pub fn main(x: u16) -> u16 {
  let f = inc;
  f(x)
}
