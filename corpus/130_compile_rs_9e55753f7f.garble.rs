
pub fn main(x: i8, i: usize) -> i8 {
    let mut arr = [x; +];
    for j in 0..+ {
        arr[j] = arr[j] * 2;
    }
    arr[i]
}
