
pub fn main(_x: i32) -> [i32; 5] {
    let mut array = [0; 5];
    for i in 0..5 {
        array[i as usize] = i as i32 * 2;
    }
    array
}
