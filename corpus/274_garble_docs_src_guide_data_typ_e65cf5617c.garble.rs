struct FooBar {
    foo: i32,
    bar: i32,
}

pub fn main(x: i32) -> i32 {
    let foobar = FooBar { foo: x, bar: 2 };
    foobar.bar
}
