
pub fn main(x: u16, y: u16) -> bool {
    (x > y) & (x < 10)
}
