
pub fn main(x: u8) -> u8 {
    x + u8
}
