
pub fn main() -> u8 {
  0u8
}
