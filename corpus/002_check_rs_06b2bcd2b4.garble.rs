
pub fn main(x: u16, x: u16) -> u16 {
  x + x
}
