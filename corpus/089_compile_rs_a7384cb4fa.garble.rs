
pub fn main(x: i16, y: i16, z: i16) -> i16 {
    x | (y & (z ^ 2))
}
