
pub fn main(b: bool) -> i32 {
    if b {
        1i32
    } else {
        1i32 / 0i32
    }
}