pub fn compute_score(scoring_algorithm: ScoringAlgorithm, user: User) -> Score {
    let User {
        age,
        income,
        account_balance,
        current_loans,
        credit_card_limit,
        ever_bankrupt,
        loan_payment_failures,
        credit_payment_failures,
        surety_income,
    } = user;
    let ScoringAlgorithm {
        age_score,
        income_score,
        account_balance_score,
        current_loans_score,
        credit_card_score,
        bankruptcy_score,
        loan_payment_history_score,
        credit_payment_history_score,
        surety_income_score,
        score_limits,
    } = scoring_algorithm;

    let age_points = compute_age_points(age, age_score);

    let income_points = compute_income_points(income, income_score);

    let account_balance_points =
        compute_account_balance_points(account_balance, account_balance_score);

    let current_loans_points = compute_current_loans_points(current_loans, current_loans_score);

    let credit_card_points = compute_credit_card_points(credit_card_limit, credit_card_score);

    let bankruptcy_points = compute_bankruptcy_points(ever_bankrupt, bankruptcy_score);

    let loan_payment_history_points =
        compute_loan_payment_history_points(loan_payment_failures, loan_payment_history_score);

    let credit_payment_history_points = compute_credit_payment_history_points(
        credit_payment_failures,
        credit_payment_history_score,
    );

    let surety_income_points = compute_surety_income_points(surety_income, surety_income_score);

    let total_points = age_points
        + income_points
        + account_balance_points
        + current_loans_points
        + credit_card_points
        + bankruptcy_points
        + loan_payment_history_points
        + credit_payment_history_points
        + surety_income_points;

    compute_final_score(total_points, score_limits);
}

fn compute_age_points(age: u8, age_score: [MatchClause; 4]) -> i32 {
    let mut age_points = 0;
    for clause in age_score {
        match clause {
            MatchClause::Range(range, points) => {
                let Range { min, max } = range;
                let Points { inc } = points;
                if age as i64 >= min && (age as i64) < max {
                    age_points += inc
                }
            }
            _ => {}
        }
    }
    age_points
}

fn compute_income_points(income: u32, income_score: [MatchClause; 4]) -> i32 {
    let mut income_points = 0;
    for clause in income_score {
        match clause {
            MatchClause::Range(range, points) => {
                let Range { min, max } = range;
                let Points { inc } = points;
                if income as i64 >= min && (income as i64) < max {
                    income_points += inc
                }
            }
            _ => {}
        }
    }
    income_points
}

fn compute_account_balance_points(
    account_balance: i64,
    account_balance_score: [MatchClause; 4],
) -> i32 {
    let mut account_balance_points = 0;
    for clause in account_balance_score {
        match clause {
            MatchClause::Range(range, points) => {
                let Range { min, max } = range;
                let Points { inc } = points;
                if account_balance >= min && account_balance < max {
                    account_balance_points += inc
                }
            }
            _ => {}
        }
    }
    account_balance_points
}

fn compute_current_loans_points(current_loans: u64, current_loans_score: [MatchClause; 4]) -> i32 {
    let mut current_loans_points = 0;
    for clause in current_loans_score {
        match clause {
            MatchClause::Range(range, points) => {
                let Range { min, max } = range;
                let Points { inc } = points;
                if current_loans as i64 >= min && (current_loans as i64) < max {
                    current_loans_points += inc
                }
            }
            _ => {}
        }
    }
    current_loans_points
}

fn compute_credit_card_points(credit_card_limit: u32, credit_card_score: [MatchClause; 4]) -> i32 {
    let mut credit_card_points = 0;
    for clause in credit_card_score {
        match clause {
            MatchClause::Range(range, points) => {
                let Range { min, max } = range;
                let Points { inc } = points;
                if credit_card_limit as i64 >= min && (credit_card_limit as i64) < max {
                    credit_card_points += inc;
                }
            }
            _ => {}
        }
    }
    credit_card_points
}

fn compute_bankruptcy_points(ever_bankrupt: bool, bankruptcy_score: [MatchClause; 2]) -> i32 {
    let mut bankruptcy_points = 0;
    for clause in bankruptcy_score {
        match clause {
            MatchClause::Bool(b, points) => {
                let Points { inc } = points;
                if ever_bankrupt == b {
                    bankruptcy_points += inc;
                }
            }
            _ => {}
        }
    }
    bankruptcy_points
}

fn compute_loan_payment_history_points(
    loan_payment_failures: u8,
    loan_payment_history_score: [MatchClause; 4],
) -> i32 {
    let mut loan_payment_history_points = 0;

    for clause in loan_payment_history_score {
        match clause {
            MatchClause::Range(range, points) => {
                let Range { min, max } = range;
                let Points { inc } = points;

                if loan_payment_failures as i64 >= min && (loan_payment_failures as i64) < max {
                    loan_payment_history_points += inc
                }
            }
            _ => {}
        }
    }
    loan_payment_history_points
}

fn compute_credit_payment_history_points(
    credit_payment_failures: u8,
    credit_payment_history_score: [MatchClause; 4],
) -> i32 {
    let mut credit_payment_history_points = 0;
    for clause in credit_payment_history_score {
        match clause {
            MatchClause::Range(range, points) => {
                let Range { min, max } = range;
                let Points { inc } = points;

                if credit_payment_failures as i64 >= min && (credit_payment_failures as i64) < max {
                    credit_payment_history_points += inc
                }
            }
            _ => {}
        }
    }
    credit_payment_history_points
}

fn compute_surety_income_points(surety_income: u32, surety_income_score: [MatchClause; 4]) -> i32 {
    let mut surety_income_points = 0;

    for clause in surety_income_score {
        match clause {
            MatchClause::Range(range, points) => {
                let Range { min, max } = range;
                let Points { inc } = points;

                if surety_income as i64 >= min && (surety_income as i64) < max {
                    surety_income_points += inc
                }
            }
            _ => {}
        }
    }
    surety_income_points
}

fn compute_final_score(total_points: i32, score_limits: ScoreLimits) -> Score {
    if total_points <= score_limits.min {
        Score::Bad(0)
    } else if total_points >= score_limits.max {
        Score::Good(100)
    } else {
        let score = (total_points * 100) / score_limits.max;
        if score < 50 {
            Score::Bad(score as u8)
        } else {
            Score::Good(score as u8)
        }
    }
}

struct User {
    age: u8,
    income: u32,
    account_balance: i64,
    current_loans: u64,
    credit_card_limit: u32,
    ever_bankrupt: bool,
    loan_payment_failures: u8,
    credit_payment_failures: u8,
    surety_income: u32,
}

struct ScoringAlgorithm {
    age_score: [MatchClause; 4],
    income_score: [MatchClause; 4],
    account_balance_score: [MatchClause; 4],
    current_loans_score: [MatchClause; 4],
    credit_card_score: [MatchClause; 4],
    bankruptcy_score: [MatchClause; 2],
    loan_payment_history_score: [MatchClause; 4],
    credit_payment_history_score: [MatchClause; 4],
    surety_income_score: [MatchClause; 4],
    score_limits: ScoreLimits,
}

enum MatchClause {
    Range(Range, Points),
    Bool(bool, Points),
    None,
}

struct Range {
    min: i64,
    max: i64,
}

struct Points {
    inc: i32,
}

struct ScoreLimits {
    min: i32,
    max: i32,
}

enum Score {
    Good(u8),
    Bad(u8),
}
