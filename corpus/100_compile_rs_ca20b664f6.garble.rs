
pub fn main(x: u8, y: u8) -> u8 {
    x / y
}
