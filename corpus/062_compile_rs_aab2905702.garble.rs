
pub fn main(x: bool) -> bool {
    x ^ 3
}
