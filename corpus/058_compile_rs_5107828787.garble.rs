
pub fn main(x: bool) -> bool {
    x ^ 2u8
}
