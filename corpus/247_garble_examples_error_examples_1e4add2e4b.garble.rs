pub fn main(a: u32, b: bool) -> u32 {
    a - b
}
