
pub fn main(_a: i32, _b: i32) -> () {
    let mut x = 0i32;
    x += 5;
    x -= 3;
    x *= 3;
    x /= 2;
    x %= 1;

    let mut x = 0u32;
    x ^= 4;
    x &= 3;
    x |= 2;
    x <<= 1;
    x >>= 1;

    let mut b = true;
    b ^= true;
    b &= true;
    b |= true;
}
