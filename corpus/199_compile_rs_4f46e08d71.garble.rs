
pub fn main(rows1: [(u8, u16); u8], rows2: [(u8, u16, u16); u8]) -> u16 {
    let mut result = 0u16;
    for row in join_iter(rows1, rows2) {
        let ((_, field1), (_, field2, field3)) = row;
        result = result + field1 + field2 + field3;
    }
    result
}
