struct FooBar {
    foo: i32,
    bar: (i32, i32),
}

pub fn main(x: (i32, i32)) -> i32 {
    let (a, b) = x;

    let bar = (0, 0);
    let foobar = FooBar { foo: 0, bar };
    let FooBar { bar, .. } = foobar;
    let (y, z) = bar;
    a + y
}
