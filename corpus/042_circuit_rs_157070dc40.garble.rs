
pub fn main(input1: i8, input2: i8) -> bool {
	let _unused = add(input1, input2);
	square(input1) < input2 || square(input1) > input2
}

fn square(num: i8) -> i8 {
	num * num
}

fn add(a: i8, b: i8) -> i8 {
    a + b
}
