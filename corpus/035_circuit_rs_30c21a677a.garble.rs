
pub fn main(a: u32, b: u32, c: u32) -> [u32; 2] {
    [a & (b ^ c), (a & b) ^ (a & c)]
}
