pub fn main(arr: [u16; 500], x: u16) -> [u16; 500] {
    let mut arr2 = [0u16; 500];
    arr2[0] = x;
    for i in 1usize..500usize {
        arr2[i] = arr[i - 1usize]
    }
    arr2
}
