
pub fn main(x: bool) -> u8 {
    if (true & false) ^ x {
        100
    } else {
        50
    }
}
