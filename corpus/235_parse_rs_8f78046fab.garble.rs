
pub fn main(b: u8) -> u8 {
  let a = [4; const { 2 + 3 } ];
  b
}
