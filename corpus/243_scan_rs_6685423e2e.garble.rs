
enum Ops {
    Mul(u8, u8),
    Div(u8, u8),
}

fn main(choice: A::u8, x: A::u8, y: A::u8) -> u8 {
    let op = if choice == 0 {
        Ops::Mul(x, y)
    } else {
        Ops::Div(x, y)
    };

    match op {
        Div(x, 0) => 42,
        Div(x, y) => x / y,
        Mul(x, y) => x * y,
    }
}
