
pub fn main(x: bool, y: bool, z: bool) -> i32 {
  match (x, (y, z)) {
    (true, _) => 1i32,
    (_, (false, true)) => 2i32,
    (false, (_, true)) => 3i32,
  }
}
  