
const MY_CONST: usize = min(PARTY_0::MY_CONST, PARTY_1::MY_CONST) + 5usize;
const DEPENDENT_CONST: usize = max(MY_CONST, PARTY_1::MY_CONST - 2usize) + 6usize;

pub fn main(x: u16) -> u16 {
    let array = [2; DEPENDENT_CONST];
    x + array[1] + DEPENDENT_CONST as u16
}
