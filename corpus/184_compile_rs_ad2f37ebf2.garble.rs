
const MY_CONST: u16 = 2u16;
pub fn main(x: u16) -> u16 {
    x + MY_CONST
}
