
pub fn main(x: i8, i: usize) -> i8 {
    let mut arr = [x; 3];
    for j in 0..3 {
        arr[j] = arr[j] * 2;
    }
    arr[i]
}
