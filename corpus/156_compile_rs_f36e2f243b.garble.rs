

pub fn main(i: usize, mut arr: [i32; const { 2 + 3 } ]) -> i32 {
    arr[i] = 0;
    arr[i]
}