
pub fn main(x: u8) -> i32 {
  match x {
    0u8 => 0i32,
    1u8 => 1i32,
    3u8..10u8 => 2i32,
    11u8..255u8 => 3i32,
    254u8 => 4i32,
  }
}
  