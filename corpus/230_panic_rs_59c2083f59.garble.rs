
pub fn main(b: bool) -> bool {
    (0i32 / 0i32 == 1i32) && [true; 0][1]
}
