
pub fn main(arr1: [u8; 8], arr2: [u8; 8], choice: bool) -> [u8; 8] {
    let arr = if choice { arr1 } else { arr2 };
    arr
}
