
enum Foobar {
    Foo,
    Bar(bool, bool),
}

pub fn main(b: bool) -> i32 {
    let choice = if b {
        Foobar::Bar(true, false)
    } else {
        Foobar::Foo
    };
    match choice {
        Foobar::Bar(false, false) => 1,
        Foobar::Bar(false, true) => 2,
        Foobar::Bar(_, false) => 3,
        Foobar::Bar(true, true) => 4,
        Foobar::Foo => 5,
    }
}
