
pub fn main(a: u16, b: u16) -> u16 {
    let c: u16 = 6;
    a + b + c
}
