
pub fn main(x: bool) -> 3 {
    let t = (-3, -2i16, -1i8, true, false);
    t.3
}
