
pub fn main(x: u16, y: u8) -> u16 {
    (x as u8) as u16 + y as u16
}
