pub fn main(op: Op) -> OpResult {
    match op {
        Op::Zero => OpResult::Ok(0),
        Op::Div(x, 0) => OpResult::DivByZero,
        Op::Div(x, y) => OpResult::Ok(x / y),
    }
}
