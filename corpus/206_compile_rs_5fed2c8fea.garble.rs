
pub fn main(parties: [u32; 3]) -> u32 {
  parties[0] + parties[1] + parties[2]
}