
pub fn main(a: u16, b: u16) -> u16 {
    let mut result: [u16; 2] = [3, 3];
    result[0] += a;
    result[1] += b;
    result[0] + result[1]
}
