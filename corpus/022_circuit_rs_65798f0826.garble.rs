
pub fn main(a: u32, b: u32) -> u32 {
    0
}
