
pub fn main(replacement: i32) -> [i32; 4] {
    let mut array1 = [10, 20, 30, 40];
    let second_val = array1[1]; // will be `20`
    let mut array2 = array1;
    array2[1] = replacement;
    let second_val1 = array1[1]; // will still be `20`
    let second_val2 = array2[1]; // will be equal to the value of `replacement`
    array2
}
