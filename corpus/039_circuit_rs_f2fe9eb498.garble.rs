
pub fn main(b: bool, x: i32) -> bool {
    let y = x < x;
    if b { y } else { y }
}
