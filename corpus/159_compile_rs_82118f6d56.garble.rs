
pub fn main(x: i8) -> i8 {
    if x < 0 {
        -1
    } else if x == 0 {
        0
    } else {
        1
    }
}
    