pub fn main(rows1: [([u8; 3], u16); 4], rows2: [([u8; 3], u16, u16); 3]) 
    -> [(bool, ([u8; 3], u16), ([u8;3], u16, u16)); const { 4usize + 3usize - 1usize }]
{
    join(rows1, rows2)
}
