pub fn main(_a: i32) -> [i32; 5] {
    10..15 // equivalent to `[10, 11, 12, 13, 14]`
}
