pub fn main(a: i32, b: u32) -> i64 {
    let c = -500i64;
    a as i64 + b as i64 + c
}
