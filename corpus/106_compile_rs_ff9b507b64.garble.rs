
pub fn main(x: i8, i: usize) -> i8 {
    [x; 2u8][i]
}
