
pub fn main(a: u16, b: u16) -> u16 {
    let mut t: (u16, u16) = (0, 2);
    t.1 += a;
    t.1 += b;
    t.1
}
