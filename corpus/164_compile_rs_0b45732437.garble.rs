
/*
fn unused_fn(x: ...) -> ... {
    /* nested block comment */
    // normal comment within block comment
}
 */
pub fn main(x: u16) -> u16 {
    // comment including '/*'
    x + /* ... */ 1
}
