
pub fn main(x: u8) -> u8 {
    let x = (false, x, -5);
    match x {
        (true, x, y) => 1,
        (false, 0, y) => 2,
        (false, x, y) => x,
    }
}
