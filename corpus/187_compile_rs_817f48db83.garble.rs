
const MY_CONST: usize = min(PARTY_0::MY_CONST, PARTY_1::MY_CONST);
pub fn main(x: u16) -> u16 {
    let array = [2; MY_CONST];
    x + array[1]
}
