
pub fn main(x: i32) -> i32 {
    (x * x) + (x * x)
}
