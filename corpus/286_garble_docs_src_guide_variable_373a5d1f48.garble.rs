pub fn main(x: i32) -> i32 {
    let mut y = 0;
    y = x; // `y` will now be equal to `x`
    let z = inc(y);
    z // is equal to `x + 1`, but `y` is still equal to `x`
}

fn inc(mut a: i32) -> i32 {
    a = a + 1; // the value of `a` is changed only inside this function's scope
    a
}
