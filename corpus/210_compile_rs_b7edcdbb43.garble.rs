
pub fn main(a: u16, b: u16) -> u16 {
    let mut result: u16 = 6;
    result += a + b;
    result
}
