pub fn main(_x: i32) -> i32 {
    let mut sum = 0;
    for i in [2, 4, 6, 8] {
        sum += i
    }
    sum
}
