
pub fn main(rows1: [[u8; 3]; 5], rows2: [[u8; 3]; 3]) -> [(bool, [u8; 3]); const { 5usize + 3usize - 1usize } ] {
    join(rows1, rows2)
}
