
fn add(x: u16, x: u16) -> u16 {
  x + x
}

pub fn main(x: u16) -> u16 {
  add(x, 1u16)
}
