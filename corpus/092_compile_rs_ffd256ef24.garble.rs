
pub fn main(x: i16) -> i16 {
    x + -10
}
