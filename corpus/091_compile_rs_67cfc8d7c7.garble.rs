
pub fn main(mode: bool, x: i16, y: u8) -> i16 {
    if mode {
        x << y
    } else {
        x >> y
    }
}
