
pub fn main(_x: bool) -> bool {
    true
}
