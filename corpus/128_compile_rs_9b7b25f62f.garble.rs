
pub fn main(x: i8, i: usize) -> i8 {
    let mut arr = [x; i32];
    for j in 0..i32 {
        arr[j] = arr[j] * 2;
    }
    arr[i]
}
