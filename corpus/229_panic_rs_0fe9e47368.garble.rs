
pub fn main(b: bool) -> bool {
    [true; 0][1] && b
}
