pub fn main(x: u16) -> u16 {
    x + 1
}

fn inc(x: u16) -> u16 {
    add(x, 1)
}

fn add(x: u16, y: u16) -> u16 {
    x + y
}
