
pub fn main(a: bool, b: bool, c: bool) -> bool {
    (a & b) | (a & c)
}
