
pub fn main(_x: i32) -> i32 {
    10i32
}
