
pub fn main(x: i16, y: i16) -> bool {
    (x > y) & (y < x)
}
