
enum Foobar {
    Foo,
    Bar(u8)
}

pub fn main(b: bool) -> u8 {
    let choice = if b {
        Foobar::Bar(6)
    } else {
        Foobar::Foo
    };
    match choice {
        Foobar::Foo => 5,
        Foobar::Bar(x) => x
    }
}
