
pub fn main(x: i8, i: usize) -> i8 {
    let mut arr = [x; true];
    for j in 0..true {
        arr[j] = arr[j] * 2;
    }
    arr[i]
}
