
struct FooBar {
    foo: i32,
    bar: i32,
}

pub fn main(x: (i32, i32)) -> i32 {
    let (foo, bar) = x;
    let foobar = FooBar { foo, bar };
    match foobar {
        FooBar { foo: 0, .. } => 1,
        FooBar { foo, .. } => foo,
    }
}
