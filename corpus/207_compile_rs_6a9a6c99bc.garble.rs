
pub fn main(parties: [u32; 4]) -> u32 {
  let mut result = 0u32;
  for p in parties {
    result += p
  }
  result
}