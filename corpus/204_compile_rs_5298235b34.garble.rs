
pub fn main(rows1: [(u8, u16); 3], rows2: [(u8, u16); 3]) -> u16 {
    let mut result = 0u16;
    for ((_, a), (_, b)) in join_iter(rows1, rows2) {
        result += a + b;
    }
    result
}
