
pub fn main(x: i32) -> i32 {
    let mut y = x;
    for i in 0..10 {
        y = y + i as i32;
    }
    y
}
