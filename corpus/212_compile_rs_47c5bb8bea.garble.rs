
pub fn main(a: u16, b: u16) -> u16 {
    let mut result: [[u16; 3]; 2] = [[1u16, 2u16, 3u16], [4u16, 5u16, 6u16]];
    result[1][2] += a;
    result[1][2] += b;
    result[1][2]
}
