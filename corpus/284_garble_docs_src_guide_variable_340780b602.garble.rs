pub fn main(a: u32, b: u32) -> u32 {
    let sum = a + b;
    let result = sum + sum;
    let result = result + result; // this shadows the existing `result` binding
    result
}
