pub fn main(x: i32) -> i32 {
    match x {
        0 => 1,
        x => x,
    }
}
