
pub fn main(i: usize) -> i32 {
    [1i32, 2i32, 3i32][i]
}
