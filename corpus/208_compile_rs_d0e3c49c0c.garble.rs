
const PARTIES: usize = PARTIES::TOTAL;
pub fn main(array: [u16; PARTIES]) -> u16 {
    let mut result = 0u16;
    for elem in array {
        result = result + elem;
    }
    result
}
