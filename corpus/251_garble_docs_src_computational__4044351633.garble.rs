pub fn main(mut arr: [u16; 500], i: usize, x: u16) -> [u16; 500] {
    arr[i % 500] = x;
    arr
}
