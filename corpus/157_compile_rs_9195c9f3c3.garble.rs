

pub fn main(i: i32) -> [i32; const { 2 + 3 } ] {
    let arr: [i32; const { 2 + 3 } ] = [i, i, i, i, i];
    arr
}