
pub fn main(x: i32) -> i32 {
    let y = x * x;
    y + y
}
