
pub fn main(x: bool) -> + {
    let t = (-3, -2i16, -1i8, true, false);
    t.+
}
