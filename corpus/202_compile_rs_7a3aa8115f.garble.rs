
pub fn main(a: u32) -> u32 {
    let mut x = 3u32;
    x += a;
    x += 2;
    x
}