SPECIFICATION Spec
CONSTANTS
  Mode = "castq"
INVARIANT Emit
INVARIANT RowSane
CHECK_DEADLOCK FALSE
