SPECIFICATION Spec
CONSTANTS
  TypeSet = "narrow"
  MaxArms = 2
  Pool = "full"
INVARIANT Emit
INVARIANT OracleSane
CHECK_DEADLOCK FALSE
