SPECIFICATION Spec
CONSTANTS
  NConds = 2
  MaxLen = 8
  Scheme = "fixed"
INVARIANT SchemeRefinesSem
INVARIANT Emit
CHECK_DEADLOCK FALSE
