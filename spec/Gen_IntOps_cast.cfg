SPECIFICATION Spec
CONSTANTS
  Mode = "cast"
INVARIANT Emit
INVARIANT RowSane
CHECK_DEADLOCK FALSE
