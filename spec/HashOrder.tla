------------------------------ MODULE HashOrder ------------------------------
(* Design layer for C06: where the compiler iterates a hash map, the order  *)
(* of iteration is a nondeterministic choice.  The emitted gate list must   *)
(* not depend on it.  Three sites are modelled as they are implemented:     *)
(*   "cache_merge"  merging the panic-condition caches of two branches:     *)
(*                  keeps the keys present in both, emits no gate;          *)
(*   "cache_merge_old" the superseded scheme (one mux per key present in    *)
(*                  both caches, emitted while iterating) - kept as the     *)
(*                  negative control: TLC refutes OrderIndependence for it; *)
(*   "const_bind"   binding of constants: iterates the definitions sorted   *)
(*                  by source position; a constant may read earlier ones;   *)
(*   "const_bind_old" binding in hash order (negative control: a reference  *)
(*                  to a not-yet-bound constant is a crash).                *)
(* A behaviour = one chosen iteration order; the emitted trace is the       *)
(* sequence of gate requests (or the crash).                                *)
EXTENDS Naturals, Sequences, FiniteSets, TLC

CONSTANTS Site, Keys     \* Keys: the set of map keys (panic conditions / constant names)

VARIABLES order, emitted
vars == <<order, emitted>>

Perms(S) == {p \in [1..Cardinality(S) -> S] : \A i, j \in 1..Cardinality(S) : i # j => p[i] # p[j]}

(* constant k (k > first key) is defined as a reference to the previous key *)
Sorted == CHOOSE p \in Perms(Keys) : \A i \in 1..(Cardinality(Keys) - 1) : p[i] < p[i + 1]
RECURSIVE BindIn(_, _, _)
BindIn(ord, i, bound) ==
    IF i > Len(ord) THEN <<"ok">>
    ELSE IF ord[i] # Sorted[1] /\ (ord[i] - 1) \notin bound THEN <<"crash", ord[i]>>
    ELSE BindIn(ord, i + 1, bound \cup {ord[i]})

Emit(ord) ==
    CASE Site = "cache_merge" -> <<>>
      [] Site = "cache_merge_old" -> [i \in 1..Len(ord) |-> <<"mux", ord[i]>>]
      [] Site = "const_bind" -> BindIn(Sorted, 1, {})
      [] Site = "const_bind_old" -> BindIn(ord, 1, {})

Init == order \in Perms(Keys) /\ emitted = Emit(order)
Next == UNCHANGED vars
Spec == Init /\ [][Next]_vars

(* every iteration order produces the same emitted sequence *)
OrderIndependence == \A p \in Perms(Keys) : Emit(p) = emitted
=============================================================================
