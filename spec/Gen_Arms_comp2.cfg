SPECIFICATION Spec
CONSTANTS
  TypeSet = "compound"
  MaxArms = 2
  Pool = "full"
INVARIANT Emit
INVARIANT OracleSane
CHECK_DEADLOCK FALSE
