SPECIFICATION Spec
CONSTANTS
  NConds = 1
  MaxLen = 5
  Scheme = "loop-shared"
INVARIANT SchemeRefinesSem
CHECK_DEADLOCK FALSE
