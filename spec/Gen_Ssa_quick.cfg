SPECIFICATION Spec
CONSTANTS
  PartyShapes <- ShapesQuick
  MaxGates = 2
  MaxOutputs = 2
INVARIANT Emit
INVARIANT WellFormedEmitted
CHECK_DEADLOCK FALSE
