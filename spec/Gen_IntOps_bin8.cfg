SPECIFICATION Spec
CONSTANTS
  Mode = "bin8"
INVARIANT Emit
INVARIANT RowSane
CHECK_DEADLOCK FALSE
