---------------------------- MODULE Gen_OpMatrix ----------------------------
(* Generator for C17 / C05 (converse) / C07: the operator x operand-type     *)
(* matrix.  Every binary operator applied to every pair of operand kinds,    *)
(* every unary operator to every kind, every cast from every kind to every   *)
(* scalar type, every postfix form (tuple index, field, array index) to every *)
(* kind, every pattern form against every kind of scrutinee (in a match with *)
(* a wildcard clause) - in the initialiser of an un-annotated let, i.e. where *)
(* only                                                                      *)
(* the operator rule decides.  The check builds the AST and the text of each *)
(* case; GarbleTypes.WellTyped decides which must be accepted and which      *)
(* rejected (Trace_Types.tla); none may crash the front end.                 *)
EXTENDS Naturals, TLC, Json
Kinds == {"b", "u", "i", "w", "d", "q", "z", "a", "t", "s", "e", "n", "lt", "lu", "li"}
BinOps == {"add", "sub", "mul", "div", "mod", "and", "or", "xor", "shl", "shr", "lt", "gt", "le", "ge", "eq", "ne", "land", "lor"}
UnOps == {"not", "neg"}
Targets == {"bool", "u8", "i8", "u16", "i32", "u64", "usize"}
Cases == {[form |-> "bin", op |-> o, l |-> x, r |-> y] : o \in BinOps, x \in Kinds, y \in Kinds}
         \cup {[form |-> "un", op |-> o, l |-> x, r |-> "-"] : o \in UnOps, x \in Kinds}
         \cup {[form |-> "cast", op |-> tgt, l |-> x, r |-> "-"] : tgt \in Targets, x \in Kinds}
         \cup {[form |-> "postfix", op |-> o, l |-> x, r |-> "-"] : o \in {"tup0", "tup1", "tup2", "field_x", "field_y", "index0", "index_u8", "index_var"}, x \in Kinds}
         \cup {[form |-> "match", op |-> o, l |-> x, r |-> "-"] :
                 o \in {"p_true", "p_u8", "p_i8", "p_range_u8", "p_range_i16", "p_tuple2", "p_tuple3", "p_struct", "p_struct_unknown_field", "p_struct_missing_field",
                        "p_enum_unit", "p_enum_tuple", "p_enum_arity", "p_enum_unknown", "p_binder"},
                 x \in Kinds \ {"lt", "lu", "li"}}
         \cup {[form |-> "opassign", op |-> o, l |-> x, r |-> y] : o \in BinOps \ {"lt", "gt", "le", "ge", "eq", "ne", "land", "lor"}, x \in Kinds \ {"lt", "lu", "li"}, y \in Kinds}
VARIABLE c
Init == c \in Cases
Next == UNCHANGED c
Spec == Init /\ [][Next]_c
Emit == PrintT(<<"CASE", ToJson(c)>>)
=============================================================================
