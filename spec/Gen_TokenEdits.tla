--------------------------- MODULE Gen_TokenEdits ---------------------------
(* Generator for C07: the single-token perturbation space of a program of   *)
(* at most MaxTok tokens - every prefix, every deletion, duplication,       *)
(* adjacent swap and substitution by each of the NSubst token kinds.  The   *)
(* harness applies every edit whose position exists to every corpus program.*)
(* OnlySubst = TRUE: only substitutions (by the first NSubst spellings:      *)
(* values and names), applied to long generated programs - every operand of  *)
(* every operator is replaced by a value of another type.                    *)
EXTENDS Naturals, TLC, Json
CONSTANTS MaxTok, NSubst, OnlySubst
VARIABLE e
Subst == {[k |-> "subst", pos |-> p, tok |-> t] : p \in 1..MaxTok, t \in 1..NSubst}
Edits == IF OnlySubst THEN Subst ELSE
         {[k |-> "prefix", pos |-> p, tok |-> 0] : p \in 0..MaxTok}
         \cup {[k |-> "delete", pos |-> p, tok |-> 0] : p \in 1..MaxTok}
         \cup {[k |-> "dup", pos |-> p, tok |-> 0] : p \in 1..MaxTok}
         \cup {[k |-> "swap", pos |-> p, tok |-> 0] : p \in 1..(MaxTok - 1)}
         \cup {[k |-> "subst", pos |-> p, tok |-> t] : p \in 1..MaxTok, t \in 1..NSubst}
         \cup {[k |-> "insert", pos |-> p, tok |-> t] : p \in 1..MaxTok, t \in 1..NSubst}
Init == e \in Edits
Next == UNCHANGED e
Spec == Init /\ [][Next]_e
Emit == PrintT(<<"CASE", ToJson(e)>>)
=============================================================================
