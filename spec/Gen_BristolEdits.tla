-------------------------- MODULE Gen_BristolEdits --------------------------
(* Generator for the importer-totality half of C11: the perturbation space  *)
(* of a Bristol text file as a set of edits, for a file with NLines lines   *)
(* of at most MaxFields whitespace-separated fields.  One state per edit.   *)
(* Replacement tokens: small numbers, counts off by one, 2^31, 2^64 - 1,    *)
(* 2^64, negative numbers, non-numbers, unknown gate names, empty, and the  *)
(* boundary values relative to the file's own header (last wire, one past,  *)
(* two past, gate count, one more).                                         *)
EXTENDS Naturals, Sequences, TLC, Json
CONSTANTS NLines, MaxFields
VARIABLE e
Tokens == {"0", "1", "2", "3", "7", "2147483648", "4294967295", "4294967296",
           "18446744073709551615", "18446744073709551616", "-1", "x", "XOR", "AND", "INV", "EQ", "MAND", "",
           \* relative tokens, resolved by the harness against the header of the base file: its wire count W and gate count G
           "@W-1", "@W", "@W+1", "@G", "@G+1"}
Edits ==
    {[k |-> "subst", line |-> ln, field |-> fd, tok |-> t] : ln \in 1..NLines, fd \in 1..MaxFields, t \in Tokens}
    \cup {[k |-> "insert", line |-> ln, field |-> fd, tok |-> t] : ln \in 1..NLines, fd \in 1..MaxFields, t \in {"0", "1", "x"}}
    \cup {[k |-> "dropfield", line |-> ln, field |-> fd, tok |-> ""] : ln \in 1..NLines, fd \in 1..MaxFields}
    \cup {[k |-> "dropline", line |-> ln, field |-> 0, tok |-> ""] : ln \in 1..NLines}
    \cup {[k |-> "dupline", line |-> ln, field |-> 0, tok |-> ""] : ln \in 1..NLines}
    \cup {[k |-> "swaplines", line |-> ln, field |-> 0, tok |-> ""] : ln \in 1..(NLines - 1)}
    \cup {[k |-> "truncate", line |-> ln, field |-> 0, tok |-> ""] : ln \in 0..NLines}
Init == e \in Edits
Next == UNCHANGED e
Spec == Init /\ [][Next]_e
Emit == PrintT(<<"CASE", ToJson(e)>>)
=============================================================================
