SPECIFICATION Spec
CONSTANTS
  PartyShapes <- ShapesThorough
  MaxGates = 3
  MaxOutputs = 3
INVARIANT Emit
CHECK_DEADLOCK FALSE
