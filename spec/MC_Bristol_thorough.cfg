SPECIFICATION Spec
CONSTANTS
  PartyShapes <- ShapesThorough
  MaxGates = 3
  MaxOutputs = 3
INVARIANT DesignCorrect
INVARIANT Emit
CHECK_DEADLOCK FALSE
