------------------------------ MODULE BristolIO ------------------------------
(* C11: the Bristol-fashion file model and the export design.               *)
(* A parsed file is [ngates, nwires, inputs : Seq(Nat), outputs : Seq(Nat), *)
(* gates : Seq([ins : Seq(Nat), out : Nat, op : "XOR"|"AND"|"INV"])].       *)
(* Oracle: WellFormedBristol and EvalBristol; design: Export(c) transcribes *)
(* format_as_bristol (strip the panic outputs, de-alias repeated outputs    *)
(* with two XOR gates, renumber so that the outputs are the last wires in   *)
(* order).                                                                  *)
EXTENDS CircuitSem

NIn(f) == SumSeq(f.inputs)
NOut(f) == SumSeq(f.outputs)

WellFormedBristol(f) ==
    /\ f.ngates = Len(f.gates)
    /\ f.nwires = NIn(f) + Len(f.gates)
    /\ NOut(f) <= Len(f.gates)
    (* every non-input wire is assigned exactly once ... *)
    /\ {f.gates[i].out : i \in 1..Len(f.gates)} = NIn(f)..(f.nwires - 1)
    (* ... and before it is used *)
    /\ \A i \in 1..Len(f.gates) :
         /\ Len(f.gates[i].ins) = (IF f.gates[i].op = "INV" THEN 1 ELSE 2)
         /\ f.gates[i].op \in {"XOR", "AND", "INV"}
         /\ \A k \in 1..Len(f.gates[i].ins) :
               LET w == f.gates[i].ins[k]
               IN  w < NIn(f) \/ \E j \in 1..(i - 1) : f.gates[j].out = w

(* wire values after executing the gate list in file order (well-formed files only) *)
BristolWireVals(f, flat) ==
    FoldLeft(LAMBDA vals, g :
                [vals EXCEPT ![g.out + 1] =
                    IF g.op = "XOR" THEN Xor(vals[g.ins[1] + 1], vals[g.ins[2] + 1])
                    ELSE IF g.op = "AND" THEN And(vals[g.ins[1] + 1], vals[g.ins[2] + 1])
                    ELSE Not(vals[g.ins[1] + 1])],
             flat \o [i \in 1..(f.nwires - NIn(f)) |-> 0], f.gates)
(* the outputs are the last wires, in order *)
EvalBristol(f, flat) ==
    LET vals == BristolWireVals(f, flat)
    IN  [i \in 1..NOut(f) |-> vals[f.nwires - NOut(f) + i]]

-----------------------------------------------------------------------------
(* Design: format_as_bristol on an SSA circuit whose output list already    *)
(* has the panic outputs removed.                                           *)
RECURSIVE DeAlias(_, _, _, _)
(* walks the outputs; returns [gates, outs] with two XOR gates appended per repeated output *)
DeAlias(c, outs, i, seen) ==
    IF i > Len(outs) THEN [gates |-> c.gates, outs |-> outs]
    ELSE IF outs[i] \in seen
    THEN LET wmax == NumWires(c)
             c2 == [c EXCEPT !.gates = @ \o << [op |-> "xor", a |-> outs[i], b |-> outs[i]],
                                               [op |-> "xor", a |-> outs[i], b |-> wmax] >>]
         IN  DeAlias(c2, [outs EXCEPT ![i] = wmax + 1], i + 1, seen)
    ELSE DeAlias(c, outs, i + 1, seen \cup {outs[i]})

Export(c) ==
    LET d == DeAlias(c, c.outputs, 1, {})
        nin == NumInputs(c)
        total == nin + Len(d.gates)
        nout == Len(d.outs)
        PosOf(w) == CHOOSE k \in 1..nout : d.outs[k] = w
        IsOut(w) == \E k \in 1..nout : d.outs[k] = w
        OutsBefore(w) == Cardinality({v \in nin..w : IsOut(v)})   \* outputs among wires nin..w (inclusive)
        Map(w) == IF w < nin THEN w
                  ELSE IF IsOut(w) THEN total - nout + PosOf(w) - 1
                  ELSE w - OutsBefore(w)
    IN  [ngates |-> Len(d.gates), nwires |-> total, inputs |-> c.inputs, outputs |-> <<nout>>,
         gates |-> [i \in 1..Len(d.gates) |->
                      LET g == d.gates[i]
                      IN  [ins |-> IF g.op = "not" THEN <<Map(g.a)>> ELSE <<Map(g.a), Map(g.b)>>,
                           out |-> Map(nin + i - 1),
                           op |-> IF g.op = "xor" THEN "XOR" ELSE IF g.op = "and" THEN "AND" ELSE "INV"]]]

OutputsAreNotInputs(c) == \A i \in 1..Len(c.outputs) : c.outputs[i] >= NumInputs(c)

(* the design statement: the exported file is well formed and computes the same outputs *)
ExportCorrect(c) ==
    OutputsAreNotInputs(c) =>
        LET f == Export(c)
        IN  /\ WellFormedBristol(f)
            /\ \A flat \in BitVecs(NumInputs(c)) : EvalBristol(f, flat) = SsaEvalFlat(c, flat)
=============================================================================
