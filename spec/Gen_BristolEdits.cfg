SPECIFICATION Spec
CONSTANTS
  NLines = 9
  MaxFields = 6
INVARIANT Emit
CHECK_DEADLOCK FALSE
