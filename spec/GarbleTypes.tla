----------------------------- MODULE GarbleTypes -----------------------------
(* Oracle layer: the static semantics of Garble for fully annotated         *)
(* programs (C17, C05).  WellTyped(prog) re-derives every type from the     *)
(* declarations and the literal suffixes - the `ty` annotations of inner    *)
(* nodes are ignored - and checks the documented rules:                     *)
(*   operand / argument / return / branch types agree; conditions are       *)
(*   Boolean; identifiers, fields and variants exist and are in scope;      *)
(*   only `mut` bindings are assigned (through any accessor chain); calls   *)
(*   have the right number of arguments, struct and enum literals the right *)
(*   fields; patterns of `let` and `for` are irrefutable; no (mutual)       *)
(*   recursion; no unused private function; a public function has           *)
(*   parameters.                                                            *)
(* Programs are the JSON shape produced by the harness (GarbleSyntax).      *)
EXTENDS Naturals, Integers, Sequences, FiniteSets, TLC

Err == [k |-> "err"]
TBool == [k |-> "bool"]
TI(t) == [k |-> "int", t |-> t]
TUnit == [k |-> "tup", fs |-> <<>>]
IsInt(T) == T.k = "int"
IsSignedTy(T) == T.k = "int" /\ T.t \in {"i8", "i16", "i32", "i64"}
IsScalar(T) == T.k \in {"bool", "int"}

HasName(seq, n) == \E i \in 1..Len(seq) : seq[i].n = n
ByName(seq, n) == seq[CHOOSE i \in 1..Len(seq) : seq[i].n = n]
StructDefined(prog, n) == n \in DOMAIN prog.structs /\ n # "_"
EnumDefined(prog, n) == n \in DOMAIN prog.enums /\ n # "_"

(* environment: sequence of scopes, each a function name -> [t, mut] *)
RECURSIVE LookupT(_, _, _)
LookupT(env, i, n) ==
    IF i = 0 THEN [found |-> FALSE, t |-> Err, mut |-> FALSE]
    ELSE IF n \in DOMAIN env[i] THEN [found |-> TRUE, t |-> env[i][n].t, mut |-> env[i][n].mut]
    ELSE LookupT(env, i - 1, n)
Look(env, n) == LookupT(env, Len(env), n)
BindT(env, n, t, m) == [env EXCEPT ![Len(env)] = (n :> [t |-> t, mut |-> m]) @@ @]
RECURSIVE BindAllT(_, _)
BindAllT(env, bs) == IF bs = <<>> THEN env ELSE BindAllT(BindT(env, Head(bs)[1], Head(bs)[2], FALSE), Tail(bs))

(* well-formedness of a type expression *)
RECURSIVE TypeOK(_, _)
TypeOK(prog, T) ==
    CASE T.k = "bool" -> TRUE
      [] T.k = "int" -> T.t \in {"u8", "u16", "u32", "u64", "usize", "i8", "i16", "i32", "i64"}
      [] T.k = "arr" -> TypeOK(prog, T.e)
      [] T.k = "tup" -> \A i \in 1..Len(T.fs) : TypeOK(prog, T.fs[i])
      [] T.k = "struct" -> StructDefined(prog, T.name)
      [] T.k = "enum" -> EnumDefined(prog, T.name)
      [] OTHER -> FALSE

(* v is a value of the integer type named t (values in traces are below 2^30 in magnitude) *)
InRangeOf(v, t) ==
    CASE t = "u8" -> 0 <= v /\ v <= 255
      [] t = "u16" -> 0 <= v /\ v <= 65535
      [] t \in {"u32", "u64", "usize"} -> 0 <= v
      [] t = "i8" -> -128 <= v /\ v <= 127
      [] t = "i16" -> -32768 <= v /\ v <= 32767
      [] OTHER -> TRUE

(* patterns: binds of p against a value of type T; ok = p is a pattern for T *)
RECURSIVE PatT(_, _, _), PatSeqT(_, _, _, _)
PatT(prog, p, T) ==
    CASE p.k = "pid" -> [ok |-> TRUE, binds |-> << <<p.n, T>> >>, irref |-> TRUE]
      [] p.k \in {"ptrue", "pfalse"} -> [ok |-> T = TBool, binds |-> <<>>, irref |-> FALSE]
      [] p.k = "pnum" -> [ok |-> IsInt(T) /\ p.ty = T /\ InRangeOf(p.v, T.t), binds |-> <<>>, irref |-> FALSE]
      [] p.k = "prange" -> [ok |-> IsInt(T) /\ p.ty = T /\ InRangeOf(p.lo, T.t) /\ InRangeOf(p.hi, T.t), binds |-> <<>>, irref |-> FALSE]
      [] p.k = "ptup" ->
            IF T.k # "tup" \/ Len(T.fs) # Len(p.ps) THEN [ok |-> FALSE, binds |-> <<>>, irref |-> FALSE]
            ELSE PatSeqT(prog, p.ps, T.fs, 1)
      [] p.k = "pstruct" ->
            IF T.k # "struct" \/ T.name # p.name \/ ~StructDefined(prog, p.name) THEN [ok |-> FALSE, binds |-> <<>>, irref |-> FALSE]
            ELSE LET fs == prog.structs[p.name]
                     namesOk == /\ \A i \in 1..Len(p.fs) : HasName(fs, p.fs[i].n)
                                /\ \A i, j \in 1..Len(p.fs) : i # j => p.fs[i].n # p.fs[j].n
                                /\ (p.rest \/ Len(p.fs) = Len(fs))
                 IN  IF ~namesOk THEN [ok |-> FALSE, binds |-> <<>>, irref |-> FALSE]
                     ELSE PatSeqT(prog, [i \in 1..Len(p.fs) |-> p.fs[i].p], [i \in 1..Len(p.fs) |-> ByName(fs, p.fs[i].n).t], 1)
      [] p.k = "penum" ->
            IF T.k # "enum" \/ T.name # p.name \/ ~EnumDefined(prog, p.name) \/ ~HasName(prog.enums[p.name], p.v)
            THEN [ok |-> FALSE, binds |-> <<>>, irref |-> FALSE]
            ELSE LET var == ByName(prog.enums[p.name], p.v)
                 IN  IF Len(var.fs) # Len(p.ps) THEN [ok |-> FALSE, binds |-> <<>>, irref |-> FALSE]
                     ELSE LET r == PatSeqT(prog, p.ps, var.fs, 1)
                          IN  [r EXCEPT !.irref = r.irref /\ Len(prog.enums[p.name]) = 1]
PatSeqT(prog, ps, Ts, i) ==
    IF i > Len(ps) THEN [ok |-> TRUE, binds |-> <<>>, irref |-> TRUE]
    ELSE LET h == PatT(prog, ps[i], Ts[i])  t == PatSeqT(prog, ps, Ts, i + 1)
         IN  [ok |-> h.ok /\ t.ok, binds |-> h.binds \o t.binds, irref |-> h.irref /\ t.irref]

ArithOps == {"add", "sub", "mul", "div", "mod"}
BitOps == {"and", "or", "xor"}

RECURSIVE TypeOf(_, _, _), TypesOf(_, _, _), CheckStmts(_, _, _, _), CheckStmt(_, _, _), PlaceType(_, _, _, _, _)
TypesOf(prog, es, env) == [i \in 1..Len(es) |-> TypeOf(prog, es[i], env)]

(* type of the place reached from a value of type T through the accessors acc[i..] *)
PlaceType(prog, T, acc, i, env) ==
    IF i > Len(acc) THEN T
    ELSE LET a == acc[i] IN
         IF a.k = "idx" THEN (IF T.k = "arr" /\ TypeOf(prog, a.i, env) = TI("usize") THEN PlaceType(prog, T.e, acc, i + 1, env) ELSE Err)
         ELSE IF a.k = "tup" THEN (IF T.k = "tup" /\ a.i < Len(T.fs) THEN PlaceType(prog, T.fs[a.i + 1], acc, i + 1, env) ELSE Err)
         ELSE (IF T.k = "struct" /\ StructDefined(prog, T.name) /\ HasName(prog.structs[T.name], a.f)
               THEN PlaceType(prog, ByName(prog.structs[T.name], a.f).t, acc, i + 1, env) ELSE Err)

(* statements: returns [ok, env, t] (t = type of the last statement) *)
CheckStmts(prog, ss, env, last) ==
    IF ss = <<>> THEN [ok |-> TRUE, env |-> env, t |-> last]
    ELSE LET r == CheckStmt(prog, Head(ss), env)
         IN  IF ~r.ok THEN [ok |-> FALSE, env |-> env, t |-> Err]
             ELSE CheckStmts(prog, Tail(ss), r.env, r.t)

BlockType(prog, ss, env) ==
    LET r == CheckStmts(prog, ss, Append(env, <<>>), TUnit) IN IF r.ok THEN r.t ELSE Err

CheckStmt(prog, s, env) ==
    CASE s.k = "expr" -> LET t == TypeOf(prog, s.e, env) IN [ok |-> t # Err, env |-> env, t |-> t]
      [] s.k = "let" ->
            LET t == TypeOf(prog, s.e, env)
            IN  IF t = Err THEN [ok |-> FALSE, env |-> env, t |-> Err]
                ELSE LET p == PatT(prog, s.p, t)
                     IN  [ok |-> p.ok /\ p.irref, env |-> BindAllT(env, p.binds), t |-> TUnit]
      [] s.k = "letmut" ->
            LET t == TypeOf(prog, s.e, env) IN [ok |-> t # Err, env |-> BindT(env, s.n, t, TRUE), t |-> TUnit]
      [] s.k = "assign" ->
            LET v == Look(env, s.n)
                pt == IF v.found THEN PlaceType(prog, v.t, s.acc, 1, env) ELSE Err
                t == TypeOf(prog, s.e, env)
            IN  [ok |-> v.found /\ v.mut /\ pt # Err /\ t = pt, env |-> env, t |-> TUnit]
      [] s.k = "opassign" ->        \* place op= e  is  place = place op e
            LET v == Look(env, s.n)
                pt == IF v.found THEN PlaceType(prog, v.t, s.acc, 1, env) ELSE Err
                t == TypeOf(prog, s.e, env)
                okTypes == IF pt = Err \/ t = Err THEN FALSE
                           ELSE IF s.op \in ArithOps THEN IsInt(pt) /\ t = pt
                           ELSE IF s.op \in BitOps THEN IsScalar(pt) /\ t = pt
                           ELSE IF s.op \in {"shl", "shr"} THEN IsInt(pt) /\ t = TI("u8")
                           ELSE FALSE
            IN  [ok |-> v.found /\ v.mut /\ okTypes, env |-> env, t |-> TUnit]
      [] s.k = "for" ->
            LET t == TypeOf(prog, s.e, env)
            IN  IF t = Err \/ t.k # "arr" THEN [ok |-> FALSE, env |-> env, t |-> Err]
                ELSE LET p == PatT(prog, s.p, t.e)
                         body == CheckStmts(prog, s.body, BindAllT(Append(env, <<>>), p.binds), TUnit)
                     IN  [ok |-> p.ok /\ p.irref /\ body.ok, env |-> env, t |-> TUnit]
      [] s.k = "forjoin" ->
            LET ta == TypeOf(prog, s.a, env)  tb == TypeOf(prog, s.b, env)
            IN  IF ta = Err \/ tb = Err \/ ta.k # "arr" \/ tb.k # "arr" \/ ta.e.k # "tup" \/ tb.e.k # "tup"
                   \/ ta.e.fs = <<>> \/ tb.e.fs = <<>> \/ ta.e.fs[1] # tb.e.fs[1]
                THEN [ok |-> FALSE, env |-> env, t |-> Err]
                ELSE LET p == PatT(prog, s.p, [k |-> "tup", fs |-> <<ta.e, tb.e>>])
                         body == CheckStmts(prog, s.body, BindAllT(Append(env, <<>>), p.binds), TUnit)
                     IN  [ok |-> p.ok /\ p.irref /\ body.ok, env |-> env, t |-> TUnit]

TypeOf(prog, e, env) ==
    CASE e.k \in {"true", "false"} -> TBool
      [] e.k = "num" -> IF TypeOK(prog, e.ty) /\ IsInt(e.ty) /\ InRangeOf(e.v, e.ty.t) THEN e.ty ELSE Err
      [] e.k = "var" -> LET v == Look(env, e.n) IN IF v.found THEN v.t ELSE Err
      [] e.k = "arrlit" ->
            LET ts == TypesOf(prog, e.es, env)
            IN  IF e.es = <<>> \/ \E i \in 1..Len(ts) : ts[i] = Err \/ ts[i] # ts[1] THEN Err
                ELSE [k |-> "arr", e |-> ts[1], n |-> Len(ts)]
      [] e.k = "arrrep" -> LET t == TypeOf(prog, e.e, env) IN IF t = Err THEN Err ELSE [k |-> "arr", e |-> t, n |-> e.n]
      [] e.k = "range" -> IF e.lo < e.hi THEN [k |-> "arr", e |-> TI(e.t), n |-> e.hi - e.lo] ELSE Err
      [] e.k = "idx" ->
            LET ta == TypeOf(prog, e.a, env)  ti == TypeOf(prog, e.i, env)
            IN  IF ta # Err /\ ta.k = "arr" /\ ti = TI("usize") THEN ta.e ELSE Err
      [] e.k = "tuplit" ->
            LET ts == TypesOf(prog, e.es, env)
            IN  IF \E i \in 1..Len(ts) : ts[i] = Err THEN Err ELSE [k |-> "tup", fs |-> ts]
      [] e.k = "tupacc" ->
            LET t == TypeOf(prog, e.e, env) IN IF t # Err /\ t.k = "tup" /\ e.i < Len(t.fs) THEN t.fs[e.i + 1] ELSE Err
      [] e.k = "sacc" ->
            LET t == TypeOf(prog, e.e, env)
            IN  IF t # Err /\ t.k = "struct" /\ StructDefined(prog, t.name) /\ HasName(prog.structs[t.name], e.f)
                THEN ByName(prog.structs[t.name], e.f).t ELSE Err
      [] e.k = "slit" ->
            IF ~StructDefined(prog, e.name) THEN Err
            ELSE LET fs == prog.structs[e.name]
                 IN  IF /\ Len(e.fs) = Len(fs)
                        /\ \A i, j \in 1..Len(e.fs) : i # j => e.fs[i].n # e.fs[j].n
                        /\ \A i \in 1..Len(e.fs) : HasName(fs, e.fs[i].n) /\ TypeOf(prog, e.fs[i].e, env) = ByName(fs, e.fs[i].n).t
                     THEN [k |-> "struct", name |-> e.name] ELSE Err
      [] e.k = "elit" ->
            IF ~EnumDefined(prog, e.name) \/ ~HasName(prog.enums[e.name], e.v) THEN Err
            ELSE LET var == ByName(prog.enums[e.name], e.v)
                 IN  IF Len(var.fs) = Len(e.es) /\ \A i \in 1..Len(e.es) : TypeOf(prog, e.es[i], env) = var.fs[i]
                     THEN [k |-> "enum", name |-> e.name] ELSE Err
      [] e.k = "match" ->
            LET t == TypeOf(prog, e.e, env)
            IN  IF t = Err \/ e.arms = <<>> \/ t.k = "arr" THEN Err      \* arrays do not support pattern matching (documented)
                ELSE LET ArmT(a) == LET p == PatT(prog, a.p, t)
                                    IN  IF p.ok THEN TypeOf(prog, a.b, BindAllT(Append(env, <<>>), p.binds)) ELSE Err
                         ts == [i \in 1..Len(e.arms) |-> ArmT(e.arms[i])]
                     IN  IF \E i \in 1..Len(ts) : ts[i] = Err \/ ts[i] # ts[1] THEN Err ELSE ts[1]
      [] e.k = "un" ->
            LET t == TypeOf(prog, e.e, env)
            IN  IF e.op = "not" THEN (IF t # Err /\ IsScalar(t) THEN t ELSE Err)
                ELSE (IF t # Err /\ IsSignedTy(t) THEN t ELSE Err)
      [] e.k = "bin" ->
            LET tl == TypeOf(prog, e.l, env)  tr == TypeOf(prog, e.r, env)
            IN  IF tl = Err \/ tr = Err THEN Err
                ELSE IF e.op \in ArithOps THEN (IF IsInt(tl) /\ tl = tr THEN tl ELSE Err)
                ELSE IF e.op \in BitOps THEN (IF IsScalar(tl) /\ tl = tr THEN tl ELSE Err)
                ELSE IF e.op \in {"lt", "gt", "le", "ge"} THEN (IF IsInt(tl) /\ tl = tr THEN TBool ELSE Err)
                ELSE IF e.op \in {"eq", "ne"} THEN (IF tl = tr THEN TBool ELSE Err)
                ELSE IF e.op \in {"shl", "shr"} THEN (IF IsInt(tl) /\ tr = TI("u8") THEN tl ELSE Err)
                ELSE (* land, lor *) (IF tl = TBool /\ tr = TBool THEN TBool ELSE Err)
      [] e.k = "block" -> BlockType(prog, e.ss, env)
      [] e.k = "call" ->
            IF e.f \notin DOMAIN prog.fns THEN Err
            ELSE LET fd == prog.fns[e.f]
                 IN  IF Len(fd.params) = Len(e.args) /\ \A i \in 1..Len(e.args) : TypeOf(prog, e.args[i], env) = fd.params[i].t
                     THEN fd.ret ELSE Err
      [] e.k = "if" ->
            LET tc == TypeOf(prog, e.c, env)  tt == TypeOf(prog, e.t, env)  tf == TypeOf(prog, e.f, env)
            IN  IF tc = TBool /\ tt # Err /\ tt = tf THEN tt ELSE Err
      [] e.k = "cast" ->
            LET t == TypeOf(prog, e.e, env)
            IN  IF t # Err /\ IsScalar(t) /\ TypeOK(prog, e.to) /\ IsScalar(e.to) THEN e.to ELSE Err
      [] e.k = "join" -> Err     \* not in the fragment

(* ---- whole programs ---- *)
(* functions called (directly) by an expression / statement tree: computed by the harness-free   *)
(* recursive descent below                                                                        *)
RECURSIVE CallsE(_), CallsS(_), CallsSeq(_), CallsStmts(_)
CallsSeq(es) == UNION {CallsE(es[i]) : i \in 1..Len(es)}
CallsStmts(ss) == UNION {CallsS(ss[i]) : i \in 1..Len(ss)}
CallsE(e) ==
    CASE e.k \in {"true", "false", "num", "var", "range"} -> {}
      [] e.k \in {"arrlit", "tuplit", "elit"} -> CallsSeq(e.es)
      [] e.k \in {"arrrep", "tupacc", "sacc", "un", "cast"} -> CallsE(e.e)
      [] e.k = "idx" -> CallsE(e.a) \cup CallsE(e.i)
      [] e.k = "slit" -> UNION {CallsE(e.fs[i].e) : i \in 1..Len(e.fs)}
      [] e.k = "match" -> CallsE(e.e) \cup UNION {CallsE(e.arms[i].b) : i \in 1..Len(e.arms)}
      [] e.k = "bin" -> CallsE(e.l) \cup CallsE(e.r)
      [] e.k = "block" -> CallsStmts(e.ss)
      [] e.k = "call" -> {e.f} \cup CallsSeq(e.args)
      [] e.k = "if" -> CallsE(e.c) \cup CallsE(e.t) \cup CallsE(e.f)
      [] e.k = "join" -> CallsSeq(e.args)
CallsS(s) ==
    CASE s.k \in {"expr", "let", "letmut"} -> CallsE(s.e)
      [] s.k \in {"assign", "opassign"} -> CallsE(s.e) \cup UNION {IF s.acc[i].k = "idx" THEN CallsE(s.acc[i].i) ELSE {} : i \in 1..Len(s.acc)}
      [] s.k = "for" -> CallsE(s.e) \cup CallsStmts(s.body)
      [] s.k = "forjoin" -> CallsE(s.a) \cup CallsE(s.b) \cup CallsStmts(s.body)

Fns(prog) == DOMAIN prog.fns
Calls(prog, f) == CallsStmts(prog.fns[f].body)
RECURSIVE ReachFrom(_, _, _)
ReachFrom(prog, frontier, seen) ==
    IF frontier = {} THEN seen
    ELSE LET next == UNION {Calls(prog, f) \cap Fns(prog) : f \in frontier}
         IN  ReachFrom(prog, next \ (seen \cup frontier), seen \cup frontier)
(* f is on a call cycle *)
Recursive(prog, f) == f \in ReachFrom(prog, Calls(prog, f) \cap Fns(prog), {})

FnOK(prog, f) ==
    LET fd == prog.fns[f]
        consts == [n \in (DOMAIN prog.consts) \ {"_"} |-> [t |-> prog.consts[n].ty, mut |-> FALSE]]
        params == [n \in {fd.params[i].n : i \in 1..Len(fd.params)} |->
                     LET pi == CHOOSE i \in 1..Len(fd.params) : fd.params[i].n = n /\ \A j \in (i + 1)..Len(fd.params) : fd.params[j].n # n
                     IN  [t |-> fd.params[pi].t, mut |-> fd.params[pi].mut]]
    IN  /\ \A i \in 1..Len(fd.params) : TypeOK(prog, fd.params[i].t)
        /\ \A i, j \in 1..Len(fd.params) : i # j => fd.params[i].n # fd.params[j].n
        /\ TypeOK(prog, fd.ret)
        /\ BlockType(prog, fd.body, <<consts, params>>) = fd.ret

WellTyped(prog) ==
    /\ \A f \in Fns(prog) : FnOK(prog, f)
    /\ \A f \in Fns(prog) : ~Recursive(prog, f)
    /\ \A f \in Fns(prog) : prog.fns[f].pub => prog.fns[f].params # <<>>
    (* every private function is used by some function reachable from a public one *)
    /\ LET pubs == {f \in Fns(prog) : prog.fns[f].pub}
           used == ReachFrom(prog, pubs, {})
       IN  \A f \in Fns(prog) : f \in used
    /\ \E f \in Fns(prog) : prog.fns[f].pub
=============================================================================
