--------------------------- MODULE Trace_FrontEnd ---------------------------
(* Trace validation for C07: one event per front-end run on one input text  *)
(* (scan, parse, type check, compile, rendering of the errors):             *)
(*   [nlines, outcome : "ok"|"err"|"panic"|"hang"|"crash", phase, errors :  *)
(*    <<[l0, c0, l1, c1]>>, nerrors, prettify_ok]                           *)
(* OutcomeOK is the property: a result or a non-empty list of errors, every *)
(* error span well formed (start not after end) on a line that exists in    *)
(* the input or just past its end, rendering never fails.                   *)
EXTENDS Naturals, Sequences, TLC, Json, IOUtils
Rec == ndJsonDeserialize(IOEnv.TRACE)
VARIABLE l
vars == <<l>>
SpanOK(ev, m) ==
    /\ (m[1] < m[3] \/ (m[1] = m[3] /\ m[2] <= m[4]))
    /\ m[1] <= ev.nlines /\ m[3] <= ev.nlines
Judge(ev) ==
    IF ev.outcome = "ok" THEN <<>>
    ELSE IF ev.outcome # "err" THEN <<ev.outcome>>
    ELSE (IF ev.nerrors = 0 THEN <<"empty_error_list">> ELSE <<>>)
         \o (IF \A i \in 1..Len(ev.errors) : SpanOK(ev, ev.errors[i]) THEN <<>> ELSE <<"ill_formed_location">>)
         \o (IF ev.prettify_ok THEN <<>> ELSE <<"prettify_failed">>)
Init == l = 1
Next == /\ l <= Len(Rec)
        /\ LET bad == Judge(Rec[l]) IN bad # <<>> => PrintT(<<"MISMATCH", l, ToJson(bad)>>)
        /\ l' = l + 1
Spec == Init /\ [][Next]_vars
AllConsumed == TLCGet("stats").diameter - 1 = Len(Rec)
=============================================================================
