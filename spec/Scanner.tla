------------------------------- MODULE Scanner -------------------------------
(* Design layer for C07: the control structure of the scanner (scan.rs) as   *)
(* an explicit state machine over an abstract alphabet.  What matters for    *)
(* totality are the loops: the main loop (one character per iteration), the  *)
(* line-comment loop, the block-comment loop with nesting, the digit / word  *)
(* loops.  Characters are classes:                                           *)
(*   "/" "*" "n" (newline) "s" (space) "a" (letter) "1" (digit) "-" "x"      *)
(*   (other punctuation) "u" (a non-ASCII character)                         *)
(* One action = one iteration of one of the loops.  `iters` counts           *)
(* iterations so that totality becomes an invariant: every iteration         *)
(* consumes a character or leaves its loop, hence iters <= 2 * Len(input)+2. *)
(* EofExitsBlockComment = FALSE models the scanner before the repair (the    *)
(* block-comment loop has no end-of-input exit) and is the negative control. *)
EXTENDS Naturals, Sequences, TLC, Json

CONSTANTS MaxLen, EofExitsBlockComment

VARIABLES input, i, pc, level, iters, ntok, nerr
vars == <<input, i, pc, level, iters, ntok, nerr>>

Alphabet == {"/", "*", "n", "s", "a", "1", "-", "x", "u"}
Eof == i > Len(input)
Cur == input[i]
PeekIs(c) == i <= Len(input) /\ input[i] = c

Init == /\ \E n \in 0..MaxLen : input \in [1..n -> Alphabet]
        /\ i = 1 /\ pc = "main" /\ level = 0 /\ iters = 0 /\ ntok = 0 /\ nerr = 0

Tick == iters' = iters + 1

(* main loop: `while let Some(char) = self.chars.next()` *)
Main ==
    /\ pc = "main" /\ Tick
    /\ IF Eof THEN pc' = "done" /\ UNCHANGED <<input, i, level, ntok, nerr>>
       ELSE /\ UNCHANGED <<input, level>>
            /\ CASE Cur = "/" ->
                      IF i + 1 <= Len(input) /\ input[i + 1] = "/"
                      THEN i' = i + 2 /\ pc' = "line" /\ UNCHANGED <<ntok, nerr>>
                      ELSE IF i + 1 <= Len(input) /\ input[i + 1] = "*"
                      THEN i' = i + 2 /\ pc' = "block" /\ UNCHANGED <<ntok, nerr>>
                      ELSE i' = i + 1 /\ pc' = "main" /\ ntok' = ntok + 1 /\ UNCHANGED nerr
                 [] Cur \in {"n", "s"} -> i' = i + 1 /\ pc' = "main" /\ UNCHANGED <<ntok, nerr>>
                 [] Cur = "1" -> i' = i + 1 /\ pc' = "digits" /\ UNCHANGED <<ntok, nerr>>
                 [] Cur = "a" -> i' = i + 1 /\ pc' = "word" /\ UNCHANGED <<ntok, nerr>>
                 [] Cur = "-" -> i' = i + 1 /\ pc' = (IF i + 1 <= Len(input) /\ input[i + 1] = "1" THEN "digits" ELSE "main")
                                 /\ ntok' = (IF i + 1 <= Len(input) /\ input[i + 1] = "1" THEN ntok ELSE ntok + 1) /\ UNCHANGED nerr
                 [] Cur \in {"*", "x"} -> i' = i + 1 /\ pc' = "main" /\ ntok' = ntok + 1 /\ UNCHANGED nerr
                 [] Cur = "u" -> i' = i + 1 /\ pc' = "main" /\ nerr' = nerr + 1 /\ UNCHANGED ntok

(* `while !(self.peek('\n') || self.is_empty()) { self.advance(); }` *)
LineComment ==
    /\ pc = "line" /\ Tick /\ UNCHANGED <<input, level, ntok, nerr>>
    /\ IF Eof \/ PeekIs("n") THEN pc' = "main" /\ UNCHANGED i
       ELSE i' = i + 1 /\ UNCHANGED pc

(* digits / identifier characters are consumed one per iteration, then one token is pushed *)
Digits ==
    /\ pc = "digits" /\ Tick /\ UNCHANGED <<input, level, nerr>>
    /\ IF PeekIs("1") \/ PeekIs("a") THEN i' = i + 1 /\ UNCHANGED <<pc, ntok>>
       ELSE pc' = "main" /\ ntok' = ntok + 1 /\ UNCHANGED i
Word ==
    /\ pc = "word" /\ Tick /\ UNCHANGED <<input, level, nerr>>
    /\ IF PeekIs("1") \/ PeekIs("a") THEN i' = i + 1 /\ UNCHANGED <<pc, ntok>>
       ELSE pc' = "main" /\ ntok' = ntok + 1 /\ UNCHANGED i

(* the nested block comment loop; on entry level = 0 stands for the code's level = 1 *)
BlockComment ==
    /\ pc = "block" /\ Tick /\ UNCHANGED <<input, ntok>>
    /\ IF Eof
       THEN (IF EofExitsBlockComment
             THEN pc' = "main" /\ nerr' = nerr + 1 /\ level' = 0 /\ UNCHANGED i   \* unterminated comment: scan error
             ELSE UNCHANGED <<i, pc, level, nerr>>)                               \* as before the repair: spins
       ELSE /\ UNCHANGED nerr
            /\ IF PeekIs("/")
               THEN (IF i + 1 <= Len(input) /\ input[i + 1] = "*"
                     THEN i' = i + 2 /\ level' = level + 1 /\ UNCHANGED pc
                     ELSE i' = i + 1 /\ UNCHANGED <<level, pc>>)       \* the '/' is consumed by next_matches
               ELSE IF PeekIs("*")
               THEN (IF i + 1 <= Len(input) /\ input[i + 1] = "/"
                     THEN i' = i + 2 /\ (IF level = 0 THEN pc' = "main" /\ level' = 0 ELSE level' = level - 1 /\ UNCHANGED pc)
                     ELSE i' = i + 1 /\ UNCHANGED <<level, pc>>)
               ELSE i' = i + 1 /\ UNCHANGED <<level, pc>>

Next == Main \/ LineComment \/ Digits \/ Word \/ BlockComment
Spec == Init /\ [][Next]_vars

(* totality as a safety property *)
Terminates == iters <= 2 * Len(input) + 2
(* the scanner never reads past the input except to observe its end *)
InBounds == i <= Len(input) + 1
Emit == pc = "done" => PrintT(<<"CASE", ToJson([s |-> input, ntok |-> ntok, nerr |-> nerr])>>)
=============================================================================
