SPECIFICATION Spec
CONSTANTS
  NumIn = 2
  CacheGates = TRUE
  MaxReq = 3
  History = TRUE
  Macros <- NoMacros
INVARIANT ResponseSound
INVARIANT GatesWellFormed
INVARIANT Emit
PROPERTY AppendOnly
CHECK_DEADLOCK FALSE
