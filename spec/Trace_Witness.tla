---------------------------- MODULE Trace_Witness ----------------------------
(* Trace validation for C08: the missing cases the real type checker reports *)
(* for a rejected match, judged by the oracle: every reported case denotes   *)
(* at least one value and only values that no arm matches; at least one case *)
(* is reported.                                                              *)
EXTENDS Patterns, TLC, Json, IOUtils
Rec == ndJsonDeserialize(IOEnv.TRACE)
VARIABLE l
vars == <<l>>
Judge(ev) ==
    LET bad == {i \in 1..Len(ev.witnesses) : ~WitnessOK(ev.ty, ev.arms, ev.witnesses[i])}
    IN  (IF ev.witnesses = <<>> \/ Len(ev.witnesses) # ev.nstacks THEN <<"no_or_malformed_witness">> ELSE <<>>)
        \o (IF bad = {} THEN <<>> ELSE <<[invalid_witnesses |-> bad]>>)
Init == l = 1
Next == /\ l <= Len(Rec)
        /\ LET bad == Judge(Rec[l]) IN bad # <<>> => PrintT(<<"MISMATCH", l, ToJson(bad)>>)
        /\ l' = l + 1
Spec == Init /\ [][Next]_vars
AllConsumed == TLCGet("stats").diameter - 1 = Len(Rec)
=============================================================================
