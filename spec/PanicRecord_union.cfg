SPECIFICATION Spec
CONSTANTS
  NConds = 2
  MaxLen = 4
  Scheme = "union"
INVARIANT FirstFailureWins
CHECK_DEADLOCK FALSE
