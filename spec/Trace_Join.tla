----------------------------- MODULE Trace_Join -----------------------------
(* Trace validation for the `join` built-in (C13).  One event = one         *)
(* evaluation of  pub fn main(a, b) -> [..; n+m-1] { join(a, b) }  by the   *)
(* real compiler:  [prog, ea, eb, assoc, a, b, out_bits].                   *)
(* Oracle (JoinSem): the result has n+m-1 entries; an entry is a flag bit   *)
(* followed by the element(s); the flagged entries are exactly the matches  *)
(* (each common key once; with associated data the pair (a_i, b_j) with     *)
(* equal keys); unflagged entries are all zero; the flags are sorted.       *)
EXTENDS Layout, TLC, Json, IOUtils, FiniteSets

Rec == ndJsonDeserialize(IOEnv.TRACE)
VARIABLE l
vars == <<l>>

KeyOf(T, v) == IF T.k = "tup" THEN v[1] ELSE v

Judge(ev) ==
    LET prog == ev.prog
        n == Len(ev.a)  m == Len(ev.b)
        out == ValueBitsOf(ev.out)
        esz == 1 + SizeOf(prog, ev.ea) + (IF ev.assoc THEN SizeOf(prog, ev.eb) ELSE 0)
        cnt == n + m - 1
        okLen == Len(out) = cnt * esz /\ ~PanicOf(ev.out).panicked
        entry(i) == SubSeq(out, (i - 1) * esz + 1, i * esz)
        flagged == {i \in 1..cnt : entry(i)[1] = 1}
        (* expected flagged entries, as bits *)
        matchesA == {i \in 1..n : \E j \in 1..m : KeyOf(ev.ea, ev.a[i]) = KeyOf(ev.eb, ev.b[j])}
        keysCommon == {KeyOf(ev.ea, ev.a[i]) : i \in matchesA}
        ExpEntry(k) ==
            LET i == CHOOSE x \in 1..n : KeyOf(ev.ea, ev.a[x]) = k
                j == CHOOSE y \in 1..m : KeyOf(ev.eb, ev.b[y]) = k
            IN  <<1>> \o Encode(prog, ev.ea, ev.a[i]) \o (IF ev.assoc THEN Encode(prog, ev.eb, ev.b[j]) ELSE <<>>)
        expected == {ExpEntry(k) : k \in keysCommon}
        c1 == IF okLen THEN <<>> ELSE <<"length_or_panic">>
        c2 == IF ~okLen \/ ({entry(i) : i \in flagged} = expected /\ Cardinality(flagged) = Cardinality(expected))
              THEN <<>> ELSE <<"flagged_entries_not_exactly_the_matches">>
        c3 == IF ~okLen \/ \A i \in (1..cnt) \ flagged : \A b \in 1..esz : entry(i)[b] = 0
              THEN <<>> ELSE <<"unflagged_entry_not_zero">>
        c4 == IF ~okLen \/ (\A i, j \in 1..cnt : (i < j /\ i \in flagged) => j \in flagged)
                         \/ (\A i, j \in 1..cnt : (i < j /\ j \in flagged) => i \in flagged)
              THEN <<>> ELSE <<"flags_not_sorted">>
    IN  c1 \o c2 \o c3 \o c4

Init == l = 1
Next == /\ l <= Len(Rec)
        /\ LET bad == Judge(Rec[l]) IN bad # <<>> => PrintT(<<"MISMATCH", l, ToJson(bad)>>)
        /\ l' = l + 1
Spec == Init /\ [][Next]_vars
AllConsumed == TLCGet("stats").diameter - 1 = Len(Rec)
=============================================================================
