------------------------------- MODULE IntOps -------------------------------
(* Oracle layer: Garble's integer operators and casts (C03).                *)
(* Checked fixed-width arithmetic as in Rust's checked_* functions:         *)
(*   + - * : exact result if representable, else Overflow                   *)
(*   / %   : truncating division, remainder has the sign of the dividend;   *)
(*           divisor 0 => DivByZero; MIN / -1 => Overflow;                  *)
(*           MIN % -1 => either Ok(0) or Overflow (the property allows both)*)
(*   unary -: exact, -MIN => Overflow;  ! : bitwise complement              *)
(*   << >> : amount (a u8) >= width => Overflow; << drops high bits;        *)
(*           >> is arithmetic for signed, logical for unsigned              *)
(*   & | ^ : bitwise;  < > <= >= == != : numeric order                      *)
(*   as    : bool -> int 0/1; int -> int truncate / extend by the source    *)
(*           signedness; never panics.                                      *)
(* This module computes natively on TLC integers and is exact for 8-bit     *)
(* types (all operators) and 16-bit types (everything but * ); wider types  *)
(* are handled on limbs in Num.tla / Trace_IntOps.tla.                      *)
EXTENDS Naturals, Integers, Sequences

OVERFLOW == 100001
DIVZERO == 100002
ZERO_OR_OVERFLOW == 100003     \* MIN % -1

RECURSIVE Pow2(_)
Pow2(n) == IF n = 0 THEN 1 ELSE 2 * Pow2(n - 1)   \* n <= 30

IntTypes == {"u8", "u16", "u32", "u64", "usize", "i8", "i16", "i32", "i64"}
BitsOf(ty) == CASE ty = "bool" -> 1
                [] ty \in {"u8", "i8"} -> 8
                [] ty \in {"u16", "i16"} -> 16
                [] ty \in {"u32", "i32", "usize"} -> 32
                [] ty \in {"u64", "i64"} -> 64
IsSigned(ty) == ty \in {"i8", "i16", "i32", "i64"}

(* only for widths <= 16 *)
MinOf(ty) == IF IsSigned(ty) THEN -Pow2(BitsOf(ty) - 1) ELSE 0
MaxOf(ty) == IF IsSigned(ty) THEN Pow2(BitsOf(ty) - 1) - 1 ELSE Pow2(BitsOf(ty)) - 1
InRange(ty, v) == v >= MinOf(ty) /\ v <= MaxOf(ty)

Abs(x) == IF x < 0 THEN -x ELSE x
(* truncating division (TLA+ \div floors) *)
TDiv(a, b) == IF (a >= 0) = (b > 0) THEN Abs(a) \div Abs(b) ELSE -(Abs(a) \div Abs(b))
TRem(a, b) == a - b * TDiv(a, b)

(* wrap an arbitrary small integer into the range of ty (two's complement) *)
Wrap(ty, v) ==
    LET m == Pow2(BitsOf(ty))
        u == v % m                      \* TLA+ % is non-negative
    IN  IF IsSigned(ty) /\ u >= m \div 2 THEN u - m ELSE u

(* unsigned bit pattern of a value of ty *)
ToUnsigned(ty, v) == IF v < 0 THEN v + Pow2(BitsOf(ty)) ELSE v

RECURSIVE BitAnd(_, _, _), BitOr(_, _, _), BitXor(_, _, _)
BitAnd(a, b, n) == IF n = 0 THEN 0 ELSE (a % 2) * (b % 2) + 2 * BitAnd(a \div 2, b \div 2, n - 1)
BitOr(a, b, n) == IF n = 0 THEN 0
                  ELSE (IF (a % 2) + (b % 2) > 0 THEN 1 ELSE 0) + 2 * BitOr(a \div 2, b \div 2, n - 1)
BitXor(a, b, n) == IF n = 0 THEN 0 ELSE ((a + b) % 2) + 2 * BitXor(a \div 2, b \div 2, n - 1)

Checked(ty, v) == IF InRange(ty, v) THEN v ELSE OVERFLOW
B(x) == IF x THEN 1 ELSE 0

BinOps == {"add", "sub", "mul", "div", "mod", "and", "or", "xor", "shl", "shr",
           "lt", "gt", "le", "ge", "eq", "ne"}
CmpOps == {"lt", "gt", "le", "ge", "eq", "ne"}
ShiftOps == {"shl", "shr"}

(* a, b are values of ty (for shifts b is a u8 amount); result: value or a code *)
Bin(op, ty, a, b) ==
    LET n == BitsOf(ty) IN
    CASE op = "add" -> Checked(ty, a + b)
      [] op = "sub" -> Checked(ty, a - b)
      [] op = "mul" -> Checked(ty, a * b)
      [] op = "div" -> IF b = 0 THEN DIVZERO ELSE Checked(ty, TDiv(a, b))
      [] op = "mod" -> IF b = 0 THEN DIVZERO
                       ELSE IF IsSigned(ty) /\ a = MinOf(ty) /\ b = -1 THEN ZERO_OR_OVERFLOW
                       ELSE TRem(a, b)
      [] op = "and" -> Wrap(ty, BitAnd(ToUnsigned(ty, a), ToUnsigned(ty, b), n))
      [] op = "or"  -> Wrap(ty, BitOr(ToUnsigned(ty, a), ToUnsigned(ty, b), n))
      [] op = "xor" -> Wrap(ty, BitXor(ToUnsigned(ty, a), ToUnsigned(ty, b), n))
      [] op = "shl" -> IF b >= n THEN OVERFLOW ELSE Wrap(ty, (ToUnsigned(ty, a) * Pow2(b)) % Pow2(n))
      [] op = "shr" -> IF b >= n THEN OVERFLOW ELSE a \div Pow2(b)   \* floor = arithmetic shift
      [] op = "lt" -> B(a < b)
      [] op = "gt" -> B(a > b)
      [] op = "le" -> B(a <= b)
      [] op = "ge" -> B(a >= b)
      [] op = "eq" -> B(a = b)
      [] op = "ne" -> B(a # b)

UnOps == {"neg", "not"}
Un(op, ty, a) ==
    CASE op = "neg" -> Checked(ty, -a)
      [] op = "not" -> Wrap(ty, Pow2(BitsOf(ty)) - 1 - ToUnsigned(ty, a))

(* Boolean operators (values 0 / 1) *)
BoolBin(op, a, b) ==
    CASE op = "and" -> a * b
      [] op = "or" -> B(a + b > 0)
      [] op = "xor" -> (a + b) % 2
      [] op = "eq" -> B(a = b)
      [] op = "ne" -> B(a # b)

(* casts between types of width <= 16 natively *)
CastSmall(from, to, v) ==
    IF to = "bool" THEN v % 2          \* least significant bit; see CastToBoolAlt
    ELSE IF from = "bool" THEN v
    ELSE Wrap(to, v)
CastToBoolAlt(v) == B(v # 0)

(* Big-endian two's complement bits of a small value v (|v| < 2^30) at any  *)
(* width n <= 64: the layout of an integer of n bits.                       *)
RECURSIVE UBits(_, _)
UBits(v, n) == IF n = 0 THEN <<>> ELSE Append(UBits(v \div 2, n - 1), v % 2)
EncodeSmall(v, n) ==
    IF n <= 30 THEN UBits(IF v < 0 THEN v + Pow2(n) ELSE v, n)
    ELSE (* sign / zero extension of the 30-bit pattern *)
         [i \in 1..(n - 30) |-> IF v < 0 THEN 1 ELSE 0]
         \o UBits(IF v < 0 THEN v + Pow2(30) ELSE v, 30)

(* value of a cast from a type of width <= 16 to any integer type, as bits *)
CastBits(from, to, v) ==
    IF to = "bool" THEN <<v % 2>>
    ELSE IF BitsOf(to) <= 16 THEN EncodeSmall(CastSmall(from, to, v), BitsOf(to))
    ELSE EncodeSmall(v, BitsOf(to))      \* widening: value preserved, extended by source sign
=============================================================================
