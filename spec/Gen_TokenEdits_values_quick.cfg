SPECIFICATION Spec
CONSTANTS
  OnlySubst = TRUE
  MaxTok = 260
  NSubst = 12
INVARIANT Emit
CHECK_DEADLOCK FALSE
