SPECIFICATION Spec
CONSTANTS
  Kind = "ssa"
  Shapes <- ShapesQ
  RegCounts <- RegCountsQ
  MaxElems = 2
  RefMax = 4
  MaxOutputs = 2
INVARIANT ValidImpliesSafe
INVARIANT ModelTotal
INVARIANT Emit
CHECK_DEADLOCK FALSE
