SPECIFICATION Spec
CONSTANTS
  MaxParams = 2
  MaxCalls = 3
INVARIANT LiteralsAreChecked
INVARIANT Emit
CHECK_DEADLOCK FALSE
