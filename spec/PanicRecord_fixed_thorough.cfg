SPECIFICATION Spec
CONSTANTS
  NConds = 3
  MaxLen = 6
  Scheme = "fixed"
INVARIANT FirstFailureWins
PROPERTY PanicMonotone
CHECK_DEADLOCK FALSE
