SPECIFICATION Spec
CONSTANTS
  NConds = 2
  MaxLen = 5
  Scheme = "fixed"
INVARIANT SchemeRefinesSem
INVARIANT ScopesBalanced
CHECK_DEADLOCK FALSE
