------------------------------ MODULE Gen_Ssa ------------------------------
(* Generator (spec -> implementation): a state machine whose behaviours     *)
(* are the constructions of every small, well-formed SSA circuit: party     *)
(* sizes, then gates one at a time over any earlier wires (ordered operand  *)
(* pairs, repeated operands, unused wires, any fan-out), then any output    *)
(* list (inputs, repeats allowed).  Each finished circuit is printed once.  *)
EXTENDS CircuitSem, TLC, Json

CONSTANTS PartyShapes,   \* set of sequences of party sizes
          MaxGates,      \* max number of gates
          MaxOutputs     \* max length of the output list

VARIABLES c, phase       \* phase \in {"gates", "done"}

vars == <<c, phase>>

Init == /\ \E p \in PartyShapes : c = [inputs |-> p, gates |-> <<>>, outputs |-> <<>>]
        /\ phase = "gates"

Wires(cc) == 0..(NumWires(cc) - 1)

AddGate ==
    /\ phase = "gates"
    /\ Len(c.gates) < MaxGates
    /\ \/ \E op \in {"xor", "and"}, a, b \in Wires(c) :
             c' = [c EXCEPT !.gates = Append(@, [op |-> op, a |-> a, b |-> b])]
       \/ \E a \in Wires(c) :
             c' = [c EXCEPT !.gates = Append(@, [op |-> "not", a |-> a, b |-> a])]
    /\ UNCHANGED phase

Finish ==
    /\ phase = "gates"
    /\ \E n \in 1..MaxOutputs : \E outs \in [1..n -> Wires(c)] :
          c' = [c EXCEPT !.outputs = outs]
    /\ phase' = "done"

Next == AddGate \/ Finish

Spec == Init /\ [][Next]_vars

Emit == phase = "done" => PrintT(<<"CASE", ToJson(c)>>)

ShapesQuick == {<<1>>, <<2>>, <<1, 1>>}
ShapesThorough == {<<1>>, <<2>>, <<1, 1>>, <<3>>, <<1, 2>>, <<2, 1>>, <<1, 1, 1>>}

(* sanity of the generator itself: everything emitted is well formed *)
WellFormedEmitted == phase = "done" => SsaWellFormed(c)
=============================================================================
