SPECIFICATION Spec
CONSTANTS
  Family = "arith"
INVARIANT Emit
INVARIANT InRangeVals
CHECK_DEADLOCK FALSE
