SPECIFICATION Spec
CONSTANTS
  NConds = 2
  MaxLen = 6
  Scheme = "fixed"
INVARIANT SchemeRefinesSem
INVARIANT ScopesBalanced
CHECK_DEADLOCK FALSE
