----------------------------- MODULE Gen_Consts -----------------------------
(* Generator for C12 (spec -> implementation): programs with const          *)
(* declarations (external values, references to earlier constants, nested   *)
(* min / max / + / - with operands chosen to wrap), every assignment of     *)
(* boundary values to the external constants, and every fault mode of the   *)
(* supplied map (one constant missing / of the wrong type / both / an       *)
(* unrelated extra entry).  Emitted with the values ConstEval demands and   *)
(* with the exact set of constants an error must name.                      *)
EXTENDS ConstEval, TLC, Json, SequencesExt

CONSTANT Family   \* "arith" | "sizes"

VARIABLES case, done
vars == <<case, done>>

Lit(v) == [k |-> "lit", v |-> v]
Ext(p, i) == [k |-> "ext", party |-> p, id |-> i]
Ref(n) == [k |-> "ref", n |-> n]
AddE(l, r) == [k |-> "add", l |-> l, r |-> r]
SubE(l, r) == [k |-> "sub", l |-> l, r |-> r]
MaxE(a) == [k |-> "max", args |-> a]
MinE(a) == [k |-> "min", args |-> a]
D(n, t, e) == [n |-> n, t |-> t, e |-> e]

XA == Ext("P0", "A")
XB == Ext("P1", "B")
XA2 == Ext("P0", "A2")

(* declaration lists for a narrow type t *)
ArithShapes(t) ==
    { << D("C0", t, XA) >>,
      << D("C0", t, AddE(XA, Lit(1))) >>,
      << D("C0", t, SubE(XA, Lit(1))) >>,
      << D("C0", t, SubE(Lit(0), XA)) >>,
      << D("C0", t, MaxE(<<XA, XB>>)) >>,
      << D("C0", t, MinE(<<XA, XB>>)) >>,
      << D("C0", t, SubE(XA, XA2)) >>,
      << D("C0", t, MaxE(<<AddE(XA, Lit(100)), Lit(50)>>)) >>,
      << D("C0", t, MinE(<<SubE(XA, Lit(100)), XB, Lit(7)>>)) >>,
      << D("C0", t, AddE(MaxE(<<XA, XB>>), MinE(<<XA, XB>>))) >>,
      << D("C0", t, XA), D("C1", t, Ref("C0")) >>,
      << D("C0", t, AddE(XA, XB)), D("C1", t, SubE(Ref("C0"), Lit(2))) >>,
      << D("C0", t, Lit(3)), D("C1", t, MaxE(<<Ref("C0"), XA>>)) >>,
      << D("C1", t, XB), D("C0", t, SubE(Ref("C1"), XA)) >> }

SizeShapes ==
    { << D("N", "usize", XA) >>,
      << D("N", "usize", AddE(XA, Lit(1))) >>,
      << D("N", "usize", MaxE(<<XA, XB>>)) >>,
      << D("N", "usize", AddE(XA, XA2)) >>,
      << D("N", "usize", MinE(<<XA, XB>>)) >>,
      << D("M", "usize", XA), D("N", "usize", Ref("M")) >>,
      << D("M", "usize", XB), D("N", "usize", AddE(Ref("M"), XA)) >>,
      << D("N", "usize", SubE(AddE(XA, XB), Lit(1))) >> }

ValsFor(t) == IF t = "usize" THEN {0, 1, 2, 3}
              ELSE IF t = "bool" THEN {0, 1}
              ELSE {MinOf(t), MaxOf(t), 0, 1, 200 % (MaxOf(t) + 1)} \cup (IF IsSigned(t) THEN {-1, -100} ELSE {})

AllDeps(decls) == UNION {Deps(decls[i].e) : i \in 1..Len(decls)}
TypeOfDep(decls, d) == decls[CHOOSE i \in 1..Len(decls) : d \in Deps(decls[i].e)].t

Init == case = <<>> /\ done = FALSE
Next ==
    /\ ~done /\ done' = TRUE
    /\ \E t \in (IF Family = "arith" THEN {"u8", "i8", "u16", "i16"} ELSE {"usize"}) :
       \E decls \in (IF Family = "arith" THEN ArithShapes(t) ELSE SizeShapes) :
       LET deps == AllDeps(decls) IN
       \E asg \in [deps -> ValsFor(t)] :
       \E f \in ({[missing |-> {}, mistyped |-> {}, extra |-> x] : x \in BOOLEAN}
                 \cup {[missing |-> {d}, mistyped |-> {}, extra |-> FALSE] : d \in deps}
                 \cup {[missing |-> {}, mistyped |-> {d}, extra |-> FALSE] : d \in deps}
                 \cup {[missing |-> deps, mistyped |-> {}, extra |-> FALSE]}
                 \cup {[missing |-> {pr[1]}, mistyped |-> {pr[2]}, extra |-> FALSE] : pr \in {x \in deps \X deps : x[1] # x[2]}}) :
          case' = [ty |-> t, decls |-> decls,
                   deps |-> SetToSeq(deps),
                   asg |-> [i \in 1..Cardinality(deps) |-> asg[SetToSeq(deps)[i]]],
                   missing |-> SetToSeq(f.missing), mistyped |-> SetToSeq(f.mistyped), extra |-> f.extra,
                   ok |-> f.missing = {} /\ f.mistyped = {},
                   vals |-> IF f.missing = {} /\ f.mistyped = {}
                            THEN LET cv == ConstVals(decls, 1, asg, <<>>)
                                 IN  [i \in 1..Len(decls) |-> cv[decls[i].n]]
                            ELSE <<>>]
Spec == Init /\ [][Next]_vars
(* usize cases whose value would need to wrap are not emitted *)
Emittable == done => (case.ty # "usize" \/ ~case.ok \/ \A i \in 1..Len(case.vals) : case.vals[i] >= 0)
Emit == (done /\ Emittable) => PrintT(<<"CASE", ToJson(case)>>)
InRangeVals == (done /\ case.ok /\ case.ty # "usize") => \A i \in 1..Len(case.vals) : InRange(case.ty, case.vals[i])
=============================================================================
