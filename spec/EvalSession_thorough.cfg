SPECIFICATION Spec
CONSTANTS
  MaxParams = 3
  MaxCalls = 4
INVARIANT LiteralsAreChecked
INVARIANT Emit
CHECK_DEADLOCK FALSE
