----------------------------- MODULE Trace_Eval -----------------------------
(* Trace validation (implementation -> spec) for C01, C02, C14.  One event  *)
(* = one program compiled by the real compiler in four configurations       *)
(* ({SSA, register} x {de-duplication on, off}) and evaluated on a list of  *)
(* argument tuples:                                                         *)
(*   [prog, ptys, ret, runs : <<[args, in_bits, outs : [cfg |-> bits]]>>]   *)
(* prog is the projection of the checker's typed AST (types and source      *)
(* spans on every node).  For every run the oracle                          *)
(*   - re-encodes the arguments in the documented layout (Layout.Encode)    *)
(*     and compares with the bits the implementation fed to the circuit,    *)
(*   - runs the source semantics (GarbleSem.Run),                           *)
(*   - demands, in every configuration: if the semantics complete, panic    *)
(*     flag clear and value bits = Encode(ret, value); if they fail, panic  *)
(*     flag set, the reason equal and the reported span that of an          *)
(*     admissible first failing operation.                                  *)
EXTENDS GarbleSem, Json, IOUtils

Rec == ndJsonDeserialize(IOEnv.TRACE)
VARIABLE l
vars == <<l>>

Cfgs == {"ssa_on", "reg_on", "ssa_off", "reg_off"}

RunVerdict(ev, run) ==
    LET prog == ev.prog
        encOk == \A i \in 1..Len(ev.ptys) : run.in_bits[i] = Encode(prog, ev.ptys[i], run.args[i])
        res == Run(prog, run.args)
        exp == IF res.st.tyerr THEN [kind |-> "type_annotation_contradicts_scoping"]
               ELSE IF res.st.oom THEN [kind |-> "oom"]
               ELSE IF res.st.panic # {} THEN [kind |-> "panic", admissible |-> res.st.panic]
               ELSE [kind |-> "ok", bits |-> Encode(prog, ev.ret, res.v)]
        CfgOk(c) ==
            LET out == run.outs[c]
            IN  IF exp.kind = "oom" THEN TRUE
                ELSE IF exp.kind = "type_annotation_contradicts_scoping" THEN FALSE
                ELSE IF Len(out) # PANIC_BITS + SizeOf(prog, ev.ret) THEN FALSE
                ELSE IF exp.kind = "ok" THEN ~PanicOf(out).panicked /\ ValueBitsOf(out) = exp.bits
                ELSE LET p == PanicOf(out)
                     IN  p.panicked /\ [r |-> p.reason, m |-> p.m] \in exp.admissible
        badCfgs == {c \in Cfgs : ~CfgOk(c)}
    IN  [oom |-> exp.kind = "oom", encOk |-> encOk, bad |-> badCfgs, exp |-> exp]

Judge(ev) ==
    LET vs == [i \in 1..Len(ev.runs) |-> RunVerdict(ev, ev.runs[i])]
        badRuns == {i \in 1..Len(vs) : ~vs[i].encOk \/ vs[i].bad # {}}
    IN  [noom |-> Cardinality({i \in 1..Len(vs) : vs[i].oom}),
         bad |-> [i \in badRuns |-> [run |-> i, enc_ok |-> vs[i].encOk,
                                      cfgs |-> vs[i].bad, expected |-> vs[i].exp]]]

Init == l = 1
Next == /\ l <= Len(Rec)
        /\ LET j == Judge(Rec[l])
           IN  /\ (j.noom > 0 => PrintT(<<"OOM", l, j.noom>>))
               /\ (DOMAIN j.bad # {} =>
                     PrintT(<<"MISMATCH", l, ToJson([i \in DOMAIN j.bad |-> j.bad[i]])>>))
        /\ l' = l + 1
Spec == Init /\ [][Next]_vars
AllConsumed == TLCGet("stats").diameter - 1 = Len(Rec)
=============================================================================
