----------------------------- MODULE PanicRecord -----------------------------
(* Design layer: the running panic record of the circuit builder and its     *)
(* condition cache (src/circuit.rs push_panic_if / peek_panic /               *)
(* replace_panic_with / mux_panic) driven in the order in which              *)
(* src/compile.rs issues the calls for straight-line code, if / else, && and *)
(* ||.  A program is a *panic skeleton*: a well-bracketed list of            *)
(*   site(c, k)   an operation that fails iff condition wire c is 1          *)
(*   if(c) .. else .. end      and(c) .. end  (x && y)     or(c) .. end      *)
(*   match .. arm .. arm .. end   three clauses selected by the wires 1 and 2 *)
(*   (clause 1 if wire 1, clause 2 if ~wire 1 and wire 2, clause 3 otherwise) *)
(* Conditions are wire identities: two sites with the same c hit the same    *)
(* cache entry (that is what gate de-duplication produces for repeated       *)
(* sub-expressions).  A world w assigns a truth value to every wire; the     *)
(* record is kept per world (the meaning of the 161 record wires).           *)
(*                                                                           *)
(* Scheme = "fixed"   the code after commit 74bd988 (a cached condition is a *)
(*                    no-op; a merge keeps the conditions cached on both     *)
(*                    paths)                                                 *)
(* Scheme = "restore" the superseded code (a cache hit restores the cached   *)
(*                    snapshot; a merge keeps the union): refuted by TLC,    *)
(*                    kept as negative control                               *)
(* Scheme = "union"   fixed push, superseded merge: also refuted             *)
(*                                                                           *)
(* Checked: FirstFailureWins (at the end the record of every world is the    *)
(* first failing site on the taken path), PanicMonotone (within a branch a   *)
(* raised panic is never cleared or relocated).  Every skeleton is also      *)
(* emitted (Emit) and rendered by the harness to a Garble program that is    *)
(* evaluated in every world by the real compiler (C02).                      *)
EXTENDS Naturals, Sequences, FiniteSets, TLC, Json
CONSTANTS NConds, MaxLen, Scheme

Conds == 1..NConds
Worlds == [Conds -> BOOLEAN]
Kinds == {"oob", "div"}
Alphabet == {[op |-> "site", c |-> c, k |-> k] : c \in Conds, k \in Kinds}
            \cup {[op |-> o, c |-> c, k |-> "-"] : o \in {"if", "and", "or"}, c \in Conds}
            \cup {[op |-> "else", c |-> 0, k |-> "-"], [op |-> "end", c |-> 0, k |-> "-"]}
            \cup (IF NConds >= 2 THEN {[op |-> "match", c |-> 0, k |-> "-"], [op |-> "arm", c |-> 0, k |-> "-"]} ELSE {})

(* bracket scan: the stack of open constructs <<kind, elseSeen>> after p, or Bad *)
Bad == << <<"bad", FALSE>> >>
RECURSIVE Scan(_, _, _)
Scan(p, i, st) ==
    IF i > Len(p) THEN st
    ELSE LET x == p[i] IN
         CASE x.op = "site" -> Scan(p, i + 1, st)
           [] x.op \in {"if", "and", "or"} -> Scan(p, i + 1, Append(st, <<x.op, FALSE>>))
           [] x.op = "match" -> Scan(p, i + 1, Append(st, <<"match0", FALSE>>))
           [] x.op = "arm" -> IF st # <<>> /\ st[Len(st)][1] \in {"match0", "match1"}
                              THEN Scan(p, i + 1, [st EXCEPT ![Len(st)] = <<IF st[Len(st)][1] = "match0" THEN "match1" ELSE "match2", FALSE>>]) ELSE Bad
           [] x.op = "else" -> IF st # <<>> /\ st[Len(st)] = <<"if", FALSE>>
                               THEN Scan(p, i + 1, [st EXCEPT ![Len(st)] = <<"if", TRUE>>]) ELSE Bad
           [] x.op = "end" -> IF st # <<>> /\ (st[Len(st)][1] = "if" => st[Len(st)][2]) /\ st[Len(st)][1] \notin {"match0", "match1"}
                              THEN Scan(p, i + 1, SubSeq(st, 1, Len(st) - 1)) ELSE Bad
Open(p) == Scan(p, 1, <<>>)
(* a prefix that can still be completed within MaxLen (every open if needs else + end) *)
RECURSIVE Need(_)
Need(st) == IF st = <<>> THEN 0
            ELSE (IF st[Len(st)] = <<"if", FALSE>> THEN 2 ELSE IF st[Len(st)][1] = "match0" THEN 3 ELSE IF st[Len(st)][1] = "match1" THEN 2 ELSE 1)
                 + Need(SubSeq(st, 1, Len(st) - 1))
HasSite(p) == \E i \in 1..Len(p) : p[i].op = "site"

(* ---- oracle: first failing site on the taken path --------------------- *)
ArmSel(n, w) == IF n = 1 THEN w[1] ELSE IF n = 2 THEN ~w[1] /\ w[2] ELSE ~w[1] /\ ~w[2]
(* number (2 or 3) of the clause that starts after the `arm` at position i: 1 + the arms of the same match before it *)
RECURSIVE ArmsBefore(_, _, _)
ArmsBefore(p, i, depth) ==       \* scanning backwards from i - 1 to the opening `match`
    IF p[i].op = "end" THEN ArmsBefore(p, i - 1, depth + 1)
    ELSE IF p[i].op \in {"if", "and", "or"} THEN ArmsBefore(p, i - 1, depth - 1)
    ELSE IF p[i].op = "match" THEN (IF depth = 0 THEN 0 ELSE ArmsBefore(p, i - 1, depth - 1))
    ELSE IF p[i].op = "arm" /\ depth = 0 THEN 1 + ArmsBefore(p, i - 1, depth)
    ELSE ArmsBefore(p, i - 1, depth)
ArmNo(p, i) == 2 + ArmsBefore(p, i - 1, 0)
(* does the `end` at position i close a match?  scan backwards to its opener *)
RECURSIVE OpenerOf(_, _, _)
OpenerOf(p, i, depth) ==
    IF p[i].op = "end" THEN OpenerOf(p, i - 1, depth + 1)
    ELSE IF p[i].op \in {"if", "and", "or", "match"} THEN (IF depth = 0 THEN p[i].op ELSE OpenerOf(p, i - 1, depth - 1))
    ELSE OpenerOf(p, i - 1, depth)
IsMatchEnd(p, i) == OpenerOf(p, i - 1, 0) = "match"
AllTrue(st) == \A i \in 1..Len(st) : st[i]
RECURSIVE FirstFail(_, _, _, _)
FirstFail(p, i, w, st) ==
    IF i > Len(p) THEN 0
    ELSE LET x == p[i] IN
         CASE x.op = "site" -> IF AllTrue(st) /\ w[x.c] THEN i ELSE FirstFail(p, i + 1, w, st)
           [] x.op = "if" -> FirstFail(p, i + 1, w, Append(st, w[x.c]))
           [] x.op = "and" -> FirstFail(p, i + 1, w, Append(st, w[x.c]))
           [] x.op = "or" -> FirstFail(p, i + 1, w, Append(st, ~w[x.c]))
           [] x.op = "else" -> FirstFail(p, i + 1, w, [st EXCEPT ![Len(st)] = ~@])
           [] x.op = "match" -> FirstFail(p, i + 1, w, Append(Append(st, TRUE), w[1]))      \* two entries: (a marker, is the current clause selected)
           [] x.op = "arm" -> LET n == ArmNo(p, i) IN FirstFail(p, i + 1, w, [st EXCEPT ![Len(st)] = ArmSel(n, w)])
           [] x.op = "end" -> IF IsMatchEnd(p, i) THEN FirstFail(p, i + 1, w, SubSeq(st, 1, Len(st) - 2))
                              ELSE FirstFail(p, i + 1, w, SubSeq(st, 1, Len(st) - 1))
Expected(p) == [w \in Worlds |-> FirstFail(p, 1, w, <<>>)]

(* ---- the machine ------------------------------------------------------- *)
VARIABLES prog, phase, pc, rec, cache, stack
vars == <<prog, phase, pc, rec, cache, stack>>
NoRec == [w \in Worlds |-> 0]
(* cache: function from a subset of Conds to the record snapshot taken when the condition was recorded *)
(* phase "build": the skeleton grows one instruction at a time (every well-bracketed skeleton up to MaxLen is  *)
(* reached); phase "run": the machine executes it                                                              *)
Init == /\ prog = <<>>
        /\ phase = "build"
        /\ pc = 1
        /\ rec = NoRec
        /\ cache = <<>>
        /\ stack = <<>>
Grow == /\ phase = "build"
        /\ \E x \in Alphabet :
              LET q == Append(prog, x) IN
              /\ Open(q) # Bad
              /\ Len(q) + Need(Open(q)) <= MaxLen
              /\ prog' = q
        /\ UNCHANGED <<phase, pc, rec, cache, stack>>
Start == /\ phase = "build"
         /\ Open(prog) = <<>> /\ HasSite(prog)
         /\ phase' = "run"
         /\ UNCHANGED <<prog, pc, rec, cache, stack>>
Cached(c) == c \in DOMAIN cache
Record(c) == [w \in Worlds |-> IF rec[w] # 0 THEN rec[w] ELSE IF w[c] THEN pc ELSE 0]
Site(x) ==
    IF Cached(x.c)
    THEN /\ rec' = (IF Scheme = "restore" THEN cache[x.c] ELSE rec)
         /\ UNCHANGED cache
    ELSE /\ rec' = Record(x.c)
         /\ cache' = [c \in DOMAIN cache \cup {x.c} |-> IF c = x.c THEN Record(x.c) ELSE cache[c]]
MuxRec(c, t, f) == [w \in Worlds |-> IF w[c] THEN t[w] ELSE f[w]]
MuxRecP(S(_), t, f) == [w \in Worlds |-> IF S(w) THEN t[w] ELSE f[w]]
MuxCache(c, ct, cf) ==
    IF Scheme = "fixed"
    THEN [k \in DOMAIN ct \cap DOMAIN cf |-> ct[k]]
    ELSE [k \in DOMAIN ct \cup DOMAIN cf |->
            IF k \in DOMAIN ct /\ k \in DOMAIN cf THEN MuxRec(c, ct[k], cf[k])
            ELSE IF k \in DOMAIN ct THEN ct[k] ELSE cf[k]]
Top == stack[Len(stack)]
Pop == SubSeq(stack, 1, Len(stack) - 1)
Step ==
    /\ phase = "run"
    /\ pc <= Len(prog)
    /\ pc' = pc + 1
    /\ UNCHANGED <<prog, phase>>
    /\ LET x == prog[pc] IN
       CASE x.op = "site" -> Site(x) /\ UNCHANGED stack
         [] x.op \in {"if", "and", "or"} ->
               /\ stack' = Append(stack, [op |-> x.op, c |-> x.c, brec |-> rec, bcache |-> cache, trec |-> rec, tcache |-> cache])
               /\ UNCHANGED <<rec, cache>>
         [] x.op = "match" ->          \* muxed_panic = peek().clone(); panic_before_match = peek().clone()
               /\ stack' = Append(stack, [op |-> "match", c |-> 1, brec |-> rec, bcache |-> cache, trec |-> rec, tcache |-> cache])
               /\ UNCHANGED <<rec, cache>>
         [] x.op = "arm" ->            \* muxed_panic = mux_panic(s, peek(), muxed_panic); next clause starts from panic_before_match
               LET n == Top.c IN
               /\ stack' = [stack EXCEPT ![Len(stack)].trec = MuxRecP(LAMBDA w : ArmSel(n, w), rec, Top.trec),
                                          ![Len(stack)].tcache = MuxCache(1, cache, Top.tcache),
                                          ![Len(stack)].c = n + 1]
               /\ rec' = Top.brec /\ cache' = Top.bcache
         [] x.op = "else" ->          \* panic_if_true = replace_panic_with(panic_before_branches)
               /\ stack' = [stack EXCEPT ![Len(stack)].trec = rec, ![Len(stack)].tcache = cache]
               /\ rec' = Top.brec /\ cache' = Top.bcache
         [] x.op = "end" ->
               /\ stack' = Pop
               /\ CASE Top.op = "if" -> rec' = MuxRec(Top.c, Top.trec, rec) /\ cache' = MuxCache(Top.c, Top.tcache, cache)
                    [] Top.op = "match" -> rec' = MuxRecP(LAMBDA w : ArmSel(3, w), rec, Top.trec) /\ cache' = MuxCache(1, cache, Top.tcache)
                    [] Top.op = "and" -> rec' = MuxRec(Top.c, rec, Top.brec) /\ cache' = MuxCache(Top.c, cache, Top.bcache)
                    [] Top.op = "or" -> rec' = MuxRec(Top.c, Top.brec, rec) /\ cache' = MuxCache(Top.c, Top.bcache, cache)
Done == phase = "run" /\ pc > Len(prog)
Next == Grow \/ Start \/ Step \/ (Done /\ UNCHANGED vars)
Spec == Init /\ [][Next]_vars

FirstFailureWins == Done => rec = Expected(prog)
(* within straight-line code a raised panic is never cleared or relocated *)
PanicMonotone == [][(phase = "run" /\ pc <= Len(prog) /\ prog[pc].op = "site") => \A w \in Worlds : rec[w] # 0 => rec'[w] = rec[w]]_vars
TypeOK == /\ pc \in 1..(MaxLen + 1) /\ rec \in [Worlds -> 0..MaxLen] /\ DOMAIN cache \subseteq Conds

Emit == (phase = "run" /\ pc = 1) => PrintT(<<"CASE", ToJson([prog |-> prog, nconds |-> NConds])>>)
=============================================================================
