SPECIFICATION Spec
CONSTANTS
  TypeSet = "wide"
  MaxArms = 2
  Pool = "full"
INVARIANT Emit
INVARIANT OracleSane
CHECK_DEADLOCK FALSE
