SPECIFICATION Spec
CONSTANTS
  Mode = "join"
  MaxLen = 1
  MaxN = 4
  KeyMax = 5
INVARIANT NetworkSorts
INVARIANT Emit
CHECK_DEADLOCK FALSE
