SPECIFICATION Spec
CONSTANTS
  MaxLen = 3
  K = 22
INVARIANT Emit
CHECK_DEADLOCK FALSE
