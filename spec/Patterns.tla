------------------------------ MODULE Patterns ------------------------------
(* Oracle layer for C08: what patterns match, when an arm list is exhaustive *)
(* and which arm decides.                                                    *)
(*                                                                           *)
(* Scrutinee domains are finite ordered point sets:                          *)
(*   - bool: points 1 (false), 2 (true)                                      *)
(*   - u8 / i8: one point per value (256 points)                             *)
(*   - wider integer types: *abstract* points - clusters of consecutive      *)
(*     values around MIN, 0 and MAX, separated by "gap" points that stand    *)
(*     for all the values in between.  Pattern end points are always         *)
(*     cluster points, so an interval pattern covers a gap entirely or not   *)
(*     at all and brute force over the points is exact.                      *)
(*   - compound types: tuples, an enum and a struct over the above.          *)
(* A type is [k |-> "bool"] | [k |-> "int", t] | [k |-> "tup", fs] |         *)
(* [k |-> "enum", vs : <<[n, fs]>>] | [k |-> "struct", fs : <<[n, t]>>].     *)
(* A value is a point index (bool / int), a sequence (tuple / struct fields  *)
(* in definition order) or [tag, f] (enum).                                  *)
(* A pattern is [k |-> "wild"] | [k |-> "bind"] | [k |-> "true"|"false"] |   *)
(* [k |-> "lit", i] | [k |-> "incl", i, j] | [k |-> "excl", i, j] (i, j      *)
(* point indices; excl denotes i .. j-1) | [k |-> "tup", ps] |               *)
(* [k |-> "enum", v (variant index), ps] |                                   *)
(* [k |-> "struct", fs : <<[f (field index), p]>>, rest : BOOLEAN].          *)
EXTENDS Naturals, Integers, Sequences, FiniteSets

(* labels of the abstract points (the harness turns them into numbers) *)
SignedWide == << "min", "min+1", "min+2", "gapn", "-2", "-1", "0", "1", "2", "gapp", "max-2", "max-1", "max" >>
UnsignedWide == << "0", "1", "2", "3", "gap", "max-3", "max-2", "max-1", "max" >>
IsWide(t) == t \in {"u16", "i16", "u32", "i32", "u64", "i64", "usize"}
IsSignedT(t) == t \in {"i8", "i16", "i32", "i64"}
NPoints(T) == IF T.k = "bool" THEN 2
              ELSE IF T.t \in {"u8", "i8"} THEN 256
              ELSE IF IsSignedT(T.t) THEN Len(SignedWide) ELSE Len(UnsignedWide)
(* point index of a concrete 8-bit value *)
P8(t, v) == IF t = "i8" THEN v + 129 ELSE v + 1

RECURSIVE Product(_)
Product(ss) == IF ss = <<>> THEN {<<>>} ELSE {<<h>> \o t : h \in Head(ss), t \in Product(Tail(ss))}

RECURSIVE Values(_)
Values(T) ==
    CASE T.k \in {"bool", "int"} -> 1..NPoints(T)
      [] T.k = "tup" -> Product([i \in 1..Len(T.fs) |-> Values(T.fs[i])])
      [] T.k = "struct" -> Product([i \in 1..Len(T.fs) |-> Values(T.fs[i].t)])
      [] T.k = "enum" -> UNION {{[tag |-> i, f |-> s] : s \in Product([j \in 1..Len(T.vs[i].fs) |-> Values(T.vs[i].fs[j])])}
                                : i \in 1..Len(T.vs)}

RECURSIVE Matches(_, _, _)
Matches(T, p, v) ==
    CASE p.k \in {"wild", "bind"} -> TRUE
      [] p.k = "false" -> v = 1
      [] p.k = "true" -> v = 2
      [] p.k = "lit" -> v = p.i
      [] p.k = "incl" -> p.i <= v /\ v <= p.j
      [] p.k = "excl" -> p.i <= v /\ v < p.j
      [] p.k = "tup" -> \A i \in 1..Len(p.ps) : Matches(T.fs[i], p.ps[i], v[i])
      [] p.k = "enum" -> v.tag = p.v /\ \A j \in 1..Len(p.ps) : Matches(T.vs[p.v].fs[j], p.ps[j], v.f[j])
      [] p.k = "struct" -> \A k \in 1..Len(p.fs) : Matches(T.fs[p.fs[k].f].t, p.fs[k].p, v[p.fs[k].f])

(* index of the first matching arm, 0 if none *)
FirstMatch(T, arms, v) ==
    IF \E i \in 1..Len(arms) : Matches(T, arms[i], v)
    THEN CHOOSE i \in 1..Len(arms) : Matches(T, arms[i], v) /\ \A j \in 1..(i - 1) : ~Matches(T, arms[j], v)
    ELSE 0

Exhaustive(T, arms) == \A v \in Values(T) : FirstMatch(T, arms, v) # 0

(* a reported missing case: denotes at least one value and only unmatched values *)
WitnessOK(T, arms, w) ==
    /\ \E v \in Values(T) : Matches(T, w, v)
    /\ \A v \in Values(T) : Matches(T, w, v) => FirstMatch(T, arms, v) = 0
=============================================================================
