SPECIFICATION Spec
CONSTANTS
  Site = "cache_merge_old"
  Keys = {1, 2, 3, 4}
INVARIANT OrderIndependence
CHECK_DEADLOCK FALSE
