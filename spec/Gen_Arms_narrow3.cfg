SPECIFICATION Spec
CONSTANTS
  TypeSet = "narrow"
  MaxArms = 3
  Pool = "full"
INVARIANT Emit
INVARIANT OracleSane
CHECK_DEADLOCK FALSE
