SPECIFICATION Spec
CONSTANTS
  NConds = 1
  MaxLen = 4
  Scheme = "call-sees-caller"
INVARIANT SchemeRefinesSem
CHECK_DEADLOCK FALSE
