---------------------------- MODULE CircuitSem ----------------------------
(* Oracle layer: what SSA circuits and register circuits *are* and what    *)
(* they compute.  Circuit values are arbitrary records (possibly           *)
(* ill-formed); evaluation is defined as a step machine with an explicit   *)
(* "defined" discipline so that safety of evaluation can be stated.        *)
(*                                                                         *)
(* Conventions (shared with the Rust harness):                             *)
(*   - wires / registers are 0-based in the implementation and in the      *)
(*     JSON; TLA+ sequences are 1-based, so wire w lives at index w+1.     *)
(*   - bits are the integers 0 and 1.                                      *)
(*   - an SSA circuit is [inputs |-> <<n_1..n_p>>, gates |-> <<g..>>,      *)
(*     outputs |-> <<w..>>] with g = [op |-> "xor"|"and"|"not", a, b].     *)
(*     ("not" ignores b.)                                                  *)
(*   - a register circuit is [input_regs, insts, max_reg_count,            *)
(*     output_regs, and_ops] with inst = [out, op, a, b]; op "input"       *)
(*     uses a = party, b = index.                                          *)
EXTENDS Naturals, Integers, Sequences, FiniteSets, SequencesExt, Folds, Functions

Xor(x, y) == (x + y) % 2
And(x, y) == x * y
Not(x) == 1 - x

SumSeq(s) == FoldLeft(LAMBDA acc, x : acc + x, 0, s)

NumInputs(c) == SumSeq(c.inputs)
NumWires(c) == NumInputs(c) + Len(c.gates)

(* flat input bits from per-party inputs *)
Flatten(ss) == FoldLeft(LAMBDA acc, s : acc \o s, <<>>, ss)

-----------------------------------------------------------------------------
(* SSA circuits *)

GateRefs(g) == IF g.op = "not" THEN {g.a} ELSE {g.a, g.b}

(* The documented validity condition of an SSA circuit *)
SsaWellFormed(c) ==
    /\ NumInputs(c) > 0
    /\ \A i \in 1..Len(c.gates) :
         \A r \in GateRefs(c.gates[i]) : r >= 0 /\ r < NumInputs(c) + i - 1
    /\ Len(c.outputs) > 0
    /\ \A i \in 1..Len(c.outputs) : c.outputs[i] >= 0 /\ c.outputs[i] < NumWires(c)

ApplyGate(g, vals) ==
    IF g.op = "xor" THEN Xor(vals[g.a + 1], vals[g.b + 1])
    ELSE IF g.op = "and" THEN And(vals[g.a + 1], vals[g.b + 1])
    ELSE Not(vals[g.a + 1])

(* all wire values of a well-formed SSA circuit, given the flat input bits *)
SsaWireVals(c, flat) ==
    FoldLeft(LAMBDA vals, g : Append(vals, ApplyGate(g, vals)), flat, c.gates)

SsaEvalFlat(c, flat) ==
    LET vals == SsaWireVals(c, flat)
    IN  [i \in 1..Len(c.outputs) |-> vals[c.outputs[i] + 1]]

(* Safety of SSA evaluation as the implementation performs it: every wire   *)
(* read has been defined before it is read; outputs name defined wires.     *)
SsaEvalSafe(c) ==
    /\ \A i \in 1..Len(c.gates) :
         \A r \in GateRefs(c.gates[i]) : r >= 0 /\ r < NumInputs(c) + i - 1
    /\ \A i \in 1..Len(c.outputs) : c.outputs[i] >= 0 /\ c.outputs[i] < NumWires(c)

-----------------------------------------------------------------------------
(* Register circuits *)

IsInput(inst) == inst.op = "input"
InstReads(inst) ==
    IF inst.op = "input" THEN {}
    ELSE IF inst.op = "not" THEN {inst.a} ELSE {inst.a, inst.b}

(* One step of the register machine.  st = [regs |-> function 0..R-1 ->    *)
(* {0,1}, def |-> set of written registers, bad |-> BOOLEAN].  A step goes *)
(* bad when it reads an unwritten / non-existent register, writes a         *)
(* non-existent register, or names a non-existent party / input index.      *)
RegStep(rc, parties, st, inst) ==
    LET R == rc.max_reg_count
        okOut == inst.out >= 0 /\ inst.out < R
        okReads == \A r \in InstReads(inst) : r >= 0 /\ r < R /\ r \in st.def
        okInput == IF IsInput(inst)
                   THEN /\ inst.a >= 0 /\ inst.a < Len(parties)
                        /\ inst.b >= 0 /\ inst.b < Len(parties[inst.a + 1])
                   ELSE TRUE
    IN  IF st.bad \/ ~okOut \/ ~okReads \/ ~okInput
        THEN [st EXCEPT !.bad = TRUE]
        ELSE LET v == IF inst.op = "input" THEN parties[inst.a + 1][inst.b + 1]
                      ELSE IF inst.op = "xor" THEN Xor(st.regs[inst.a], st.regs[inst.b])
                      ELSE IF inst.op = "and" THEN And(st.regs[inst.a], st.regs[inst.b])
                      ELSE Not(st.regs[inst.a])
             IN  [regs |-> [st.regs EXCEPT ![inst.out] = v],
                  def  |-> st.def \cup {inst.out},
                  bad  |-> FALSE]

RegInit(rc) == [regs |-> [r \in 0..(rc.max_reg_count - 1) |-> 0], def |-> {}, bad |-> FALSE]

RegRun(rc, parties) ==
    FoldLeft(LAMBDA st, inst : RegStep(rc, parties, st, inst), RegInit(rc), rc.insts)

(* The implementation initialises every register to false, so an output    *)
(* register that was never written is *readable* (no crash) but carries no  *)
(* defined value; the property "never reads a register that has not been   *)
(* written" covers outputs too.                                             *)
RegEvalSafeOn(rc, parties) ==
    LET fin == RegRun(rc, parties)
    IN  /\ ~fin.bad
        /\ \A i \in 1..Len(rc.output_regs) :
              rc.output_regs[i] >= 0 /\ rc.output_regs[i] < rc.max_reg_count

RegOutputsDefinedOn(rc, parties) ==
    LET fin == RegRun(rc, parties)
    IN  \A i \in 1..Len(rc.output_regs) : rc.output_regs[i] \in fin.def

RegEval(rc, parties) ==
    LET fin == RegRun(rc, parties)
    IN  [i \in 1..Len(rc.output_regs) |-> fin.regs[rc.output_regs[i]]]

(* split flat bits into parties according to sizes *)
RECURSIVE SplitBy(_, _)
SplitBy(sizes, flat) ==
    IF sizes = <<>> THEN <<>>
    ELSE <<SubSeq(flat, 1, Head(sizes))>>
         \o SplitBy(Tail(sizes), SubSeq(flat, Head(sizes) + 1, Len(flat)))

(* all bit vectors of length n *)
BitVecs(n) == [1..n -> {0, 1}]

-----------------------------------------------------------------------------
(* Shape predicates (C15) on built SSA circuits.  The first two gates of    *)
(* every built circuit are the constants (xor(0,0) and its negation).       *)

RECURSIVE Reach(_, _, _)
(* backward reachability: frontier is a set of wires, seen accumulates *)
Reach(c, frontier, seen) ==
    IF frontier = {} THEN seen
    ELSE LET nin == NumInputs(c)
             next == UNION { IF w >= nin THEN GateRefs(c.gates[w - nin + 1]) ELSE {}
                             : w \in frontier }
         IN  Reach(c, next \ (seen \cup frontier), seen \cup frontier)

LiveWires(c) == Reach(c, {c.outputs[i] : i \in 1..Len(c.outputs)}, {})

(* every gate except the two constant gates reaches some output *)
NoDeadGates(c) ==
    LET nin == NumInputs(c) live == LiveWires(c)
    IN  \A i \in 3..Len(c.gates) : (nin + i - 1) \in live

ConstWires(c) == {NumInputs(c), NumInputs(c) + 1}

NoTrivialAnd(c) ==
    \A i \in 1..Len(c.gates) :
        c.gates[i].op = "and" =>
            /\ c.gates[i].a # c.gates[i].b
            /\ c.gates[i].a \notin ConstWires(c)
            /\ c.gates[i].b \notin ConstWires(c)

AndCount(c) == Cardinality({i \in 1..Len(c.gates) : c.gates[i].op = "and"})

NoDupAnd(c) ==
    Cardinality({ {c.gates[i].a, c.gates[i].b} : i \in {j \in 1..Len(c.gates) : c.gates[j].op = "and"} })
        = AndCount(c)

=============================================================================
