----------------------------- MODULE EvalSession -----------------------------
(* Design layer: the protocol of an evaluation session (src/eval.rs):        *)
(*   evaluator() ; set_<prim>(v) | set_literal(l) | parse_literal(text) ...  *)
(*   ; run() ; result.  State: the list of inputs pushed so far (one bit      *)
(* vector per call that succeeded).                                          *)
(*   - set_<prim> pushes the bits of the primitive without any check;        *)
(*   - set_literal / parse_literal look at the parameter with the index of   *)
(*     the next input: a value of that type is pushed, anything else is an   *)
(*     error and the session is unchanged; with all parameters supplied any  *)
(*     further literal is an error;                                          *)
(*   - run() succeeds iff there is exactly one input per parameter and each  *)
(*     has the width of its parameter; otherwise it is an error - never a    *)
(*     panic, whatever the calls before.                                     *)
(* Parameters are abstracted to their kind: "u8", "bool", "i16", "pair"      *)
(* ((u8, bool)), "arr" ([u8; 2]).  A call is [c, k]: c the method, k the     *)
(* kind of the value supplied.                                               *)
(* TLC enumerates every program signature (1..MaxParams parameters) and      *)
(* every call sequence up to MaxCalls, with the outcome of every call; the   *)
(* harness replays each history into a real session.                         *)
EXTENDS Naturals, Sequences, TLC, Json
CONSTANTS MaxParams, MaxCalls
Kinds == {"u8", "bool", "i16", "pair", "arr"}
Width(k) == CASE k = "u8" -> 8 [] k = "bool" -> 1 [] k = "i16" -> 16 [] k = "pair" -> 9 [] k = "arr" -> 16
PrimKinds == {"u8", "bool", "i16"}
Calls == {[c |-> "prim", k |-> k] : k \in PrimKinds}
         \cup {[c |-> "lit", k |-> k] : k \in Kinds}
         \cup {[c |-> "text", k |-> k] : k \in Kinds}

VARIABLES params, inputs, hist, phase
vars == <<params, inputs, hist, phase>>
(* a single array parameter is split into one party per element: that interface is not part of this model *)
Init == /\ params \in {p \in UNION {[1..n -> Kinds] : n \in 1..MaxParams} : ~(Len(p) = 1 /\ p[1] = "arr")}
        /\ inputs = <<>> /\ hist = <<>> /\ phase = "open"
Next_(c) ==
    LET i == Len(inputs) + 1 IN
    IF c.c = "prim" THEN [ok |-> TRUE, inputs |-> Append(inputs, Width(c.k))]
    ELSE IF i > Len(params) THEN [ok |-> FALSE, inputs |-> inputs]
    ELSE IF params[i] = c.k THEN [ok |-> TRUE, inputs |-> Append(inputs, Width(c.k))]
    ELSE [ok |-> FALSE, inputs |-> inputs]
Call == /\ phase = "open" /\ Len(hist) < MaxCalls
        /\ \E c \in Calls :
             LET r == Next_(c) IN
             /\ inputs' = r.inputs
             /\ hist' = Append(hist, [c |-> c.c, k |-> c.k, ok |-> r.ok])
        /\ UNCHANGED <<params, phase>>
RunOK == /\ Len(inputs) = Len(params) /\ \A i \in 1..Len(params) : inputs[i] = Width(params[i])
Run == /\ phase = "open" /\ phase' = "done"
       /\ hist' = Append(hist, [c |-> "run", k |-> "-", ok |-> RunOK])
       /\ UNCHANGED <<params, inputs>>
Next == Call \/ Run \/ (phase = "done" /\ UNCHANGED vars)
Spec == Init /\ [][Next]_vars

(* a literal call never changes the session unless it succeeds; a successful run has exactly the parameters' widths *)
LiteralsAreChecked == \A j \in 1..Len(hist) : (hist[j].c \in {"lit", "text"} /\ hist[j].ok) =>
                          LET before == Len(SelectSeq(SubSeq(hist, 1, j - 1), LAMBDA h : h.ok /\ h.c # "run")) IN
                          before < Len(params) /\ params[before + 1] = hist[j].k
Emit == (phase = "done") => PrintT(<<"CASE", ToJson([params |-> params, hist |-> hist])>>)
=============================================================================
