SPECIFICATION Spec
CONSTANTS
  PartyShapes <- ShapesThorough
  MaxGates = 3
  MaxOutputs = 3
INVARIANT DesignCorrect
CHECK_DEADLOCK FALSE
