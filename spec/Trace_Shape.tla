---------------------------- MODULE Trace_Shape ----------------------------
(* Trace validation for C15 (and the structural half of C05): every built   *)
(* circuit that the implementation produced is judged by the shape          *)
(* predicates of CircuitSem: no dead gate (apart from the two constants),   *)
(* no AND with a constant operand or the same wire twice, no two ANDs with  *)
(* the same operand pair when de-duplication is on, and (for "movement"     *)
(* programs) zero AND gates.                                                *)
EXTENDS CircuitSem, TLC, Json, IOUtils

Rec == ndJsonDeserialize(IOEnv.TRACE)
VARIABLE l
vars == <<l>>

HasKey(r, k) == k \in DOMAIN r

Judge(ev) ==
    LET c == ev.c
        c0 == IF SsaWellFormed(c) THEN <<>> ELSE <<"ill_formed">>
        c1 == IF c0 # <<>> \/ NoDeadGates(c) THEN <<>> ELSE <<"dead_gate">>
        c2 == IF NoTrivialAnd(c) THEN <<>> ELSE <<"trivial_and">>
        c3 == IF ~ev.dedup \/ NoDupAnd(c) THEN <<>> ELSE <<"duplicate_and">>
        c4 == IF HasKey(ev, "movement") /\ ev.movement /\ AndCount(c) # 0
              THEN <<"and_gate_in_movement_program">> ELSE <<>>
    IN  c0 \o c1 \o c2 \o c3 \o c4

Init == l = 1
Next == /\ l <= Len(Rec)
        /\ LET bad == Judge(Rec[l])
           IN  bad # <<>> => PrintT(<<"MISMATCH", l, ToJson(bad)>>)
        /\ l' = l + 1
Spec == Init /\ [][Next]_vars
AllConsumed == TLCGet("stats").diameter - 1 = Len(Rec)
=============================================================================
