SPECIFICATION Spec
CONSTANTS
  TypeSet = "compound"
  MaxArms = 3
  Pool = "full"
INVARIANT Emit
INVARIANT OracleSane
CHECK_DEADLOCK FALSE
