SPECIFICATION Spec
CONSTANTS
  NumIn = 3
  CacheGates = TRUE
  MaxReq = 3
  History = FALSE
  Macros <- NoMacros
INVARIANT ResponseSound
INVARIANT GatesWellFormed
INVARIANT BuildPreservesOutputs
INVARIANT BuildShape
PROPERTY AppendOnly
CHECK_DEADLOCK FALSE
