SPECIFICATION Spec
CONSTANTS
  TypeSet = "wide"
  MaxArms = 3
  Pool = "small"
INVARIANT Emit
INVARIANT OracleSane
CHECK_DEADLOCK FALSE
