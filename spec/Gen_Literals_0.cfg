SPECIFICATION Spec
CONSTANTS
  Depth = 0
INVARIANT Emit
INVARIANT SizeConsistent
CHECK_DEADLOCK FALSE
