SPECIFICATION Spec
CONSTANTS
  TypeSet = "pair2"
  MaxArms = 2
  Pool = "full"
INVARIANT Emit
INVARIANT OracleSane
CHECK_DEADLOCK FALSE
