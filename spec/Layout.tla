------------------------------- MODULE Layout -------------------------------
(* Oracle layer: the documented bit layout of Garble values (C09, C01).     *)
(*   - integers: big-endian two's complement, bool: one bit                 *)
(*   - arrays / tuples: elements concatenated                               *)
(*   - structs: fields concatenated in field-name order (the order of the   *)
(*     definition as the front end stores it)                               *)
(*   - enums: tag of ceil(log2 #variants) bits, then the variant's fields,  *)
(*     zero-padded to the largest variant                                   *)
(*   - a circuit output is the 161-bit panic record followed by the value   *)
(* Types and values are the JSON shapes of GarbleSyntax:                    *)
(*   type  [k |-> "bool"] | [k |-> "int", t] | [k |-> "arr", e, n] |        *)
(*         [k |-> "tup", fs] | [k |-> "struct", name] | [k |-> "enum", name]*)
(*   value 0/1 | integer | sequence (array, tuple, struct in field order) | *)
(*         [tag |-> variant index, f |-> sequence]                          *)
(* prog supplies prog.structs[name] = <<[n, t]..>> and                      *)
(* prog.enums[name] = <<[n, fs]..>>.                                        *)
EXTENDS IntOps, SequencesExt, Folds

Sum(s) == FoldLeft(LAMBDA acc, x : acc + x, 0, s)
MaxOfSeq(s) == FoldLeft(LAMBDA acc, x : IF x > acc THEN x ELSE acc, 0, s)
Concat(ss) == FoldLeft(LAMBDA acc, x : acc \o x, <<>>, ss)

TagBits(nvariants) ==
    CHOOSE b \in 0..16 : Pow2(b) >= nvariants /\ (b = 0 \/ Pow2(b - 1) < nvariants)

RECURSIVE SizeOf(_, _)
SizeOf(prog, T) ==
    CASE T.k = "bool" -> 1
      [] T.k = "int" -> BitsOf(T.t)
      [] T.k = "arr" -> T.n * SizeOf(prog, T.e)
      [] T.k = "tup" -> Sum([i \in 1..Len(T.fs) |-> SizeOf(prog, T.fs[i])])
      [] T.k = "struct" ->
            LET fs == prog.structs[T.name]
            IN  Sum([i \in 1..Len(fs) |-> SizeOf(prog, fs[i].t)])
      [] T.k = "enum" ->
            LET vs == prog.enums[T.name]
                PayloadSize(v) == Sum([j \in 1..Len(v.fs) |-> SizeOf(prog, v.fs[j])])
            IN  TagBits(Len(vs)) + MaxOfSeq([i \in 1..Len(vs) |-> PayloadSize(vs[i])])

Zeros(n) == [i \in 1..n |-> 0]

RECURSIVE Encode(_, _, _)
Encode(prog, T, v) ==
    CASE T.k = "bool" -> <<v>>
      [] T.k = "int" -> EncodeSmall(v, BitsOf(T.t))
      [] T.k = "arr" -> Concat([i \in 1..T.n |-> Encode(prog, T.e, v[i])])
      [] T.k = "tup" -> Concat([i \in 1..Len(T.fs) |-> Encode(prog, T.fs[i], v[i])])
      [] T.k = "struct" ->
            LET fs == prog.structs[T.name]
            IN  Concat([i \in 1..Len(fs) |-> Encode(prog, fs[i].t, v[i])])
      [] T.k = "enum" ->
            LET vs == prog.enums[T.name]
                var == vs[v.tag + 1]
                payload == Concat([j \in 1..Len(var.fs) |-> Encode(prog, var.fs[j], v.f[j])])
                total == SizeOf(prog, T)
                tb == TagBits(Len(vs))
            IN  UBits(v.tag, tb) \o payload \o Zeros(total - tb - Len(payload))

(* value of an unsigned big-endian bit field (must stay below 2^30) *)
UVal(bits) == FoldLeft(LAMBDA acc, b : 2 * acc + b, 0, bits)

PANIC_BITS == 161
(* the decoded panic record of a circuit output *)
PanicOf(out) ==
    [panicked |-> out[1] = 1,
     reason |-> UVal(SubSeq(out, 2, 33)),
     m |-> << UVal(SubSeq(out, 34, 65)), UVal(SubSeq(out, 66, 97)),
              UVal(SubSeq(out, 98, 129)), UVal(SubSeq(out, 130, 161)) >>]
ValueBitsOf(out) == SubSeq(out, PANIC_BITS + 1, Len(out))

REASON_OVERFLOW == 1
REASON_DIVZERO == 2
REASON_OOB == 3
=============================================================================
