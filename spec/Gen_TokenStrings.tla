-------------------------- MODULE Gen_TokenStrings --------------------------
(* Generator for C07: every string of at most MaxLen tokens over an alphabet *)
(* of K token spellings (closing and opening brackets, separators, keywords, *)
(* an identifier, a number).  The harness appends each string to every       *)
(* prefix (cut at every token boundary) of programs that contain every       *)
(* construct of the language: "the input is cut off anywhere and followed by *)
(* anything short".  This is the space in which the parser's                 *)
(* resynchronisation loops must make progress.                               *)
EXTENDS Naturals, Sequences, TLC, Json
CONSTANTS MaxLen, K
VARIABLE s
Strings == UNION {[1..n -> 1..K] : n \in 0..MaxLen}
Init == s \in Strings
Next == UNCHANGED s
Spec == Init /\ [][Next]_s
Emit == PrintT(<<"CASE", ToJson([s |-> s])>>)
=============================================================================
