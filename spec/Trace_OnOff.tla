---------------------------- MODULE Trace_OnOff ----------------------------
(* C04, consequence clause: the same program compiled with gate             *)
(* de-duplication on and off computes the same outputs.  One event per      *)
(* program: the output bit vectors of both circuits (SSA and register form) *)
(* on the same sampled inputs.  The statement is that "compile" followed by *)
(* "eval" is a function of (program, input) only.                           *)
EXTENDS Naturals, Sequences, TLC, Json, IOUtils
Rec == ndJsonDeserialize(IOEnv.TRACE)
VARIABLE l
vars == <<l>>
(* A difference is "payload_only" when all four circuits report no panic (first output 0) and differ only  *)
(* within the 160 bits that carry reason and location of a panic: those bits have no meaning without a      *)
(* panic (the documented decoding ignores them).  Anything else is an observable difference.                *)
Differs(r, c) == {p \in 1..Len(r.on_ssa) : r[c][p] # r.on_ssa[p]}
PayloadOnly(r) ==
    /\ \A c \in {"on_ssa", "on_reg", "off_ssa", "off_reg"} : Len(r[c]) = Len(r.on_ssa) /\ r[c][1] = 0
    /\ \A c \in {"on_reg", "off_ssa", "off_reg"} : Differs(r, c) \subseteq 2..161
Judge(ev) ==
    LET bad == {i \in 1..Len(ev.runs) :
                  \E c \in {"on_reg", "off_ssa", "off_reg"} : ev.runs[i][c] # ev.runs[i].on_ssa}
        obs == {i \in bad : ~PayloadOnly(ev.runs[i])}
    IN  IF bad = {} THEN <<>>
        ELSE IF obs # {} THEN <<[kind |-> "observable", input |-> ev.runs[CHOOSE i \in obs : TRUE].input]>>
        ELSE <<[kind |-> "payload_only", input |-> ev.runs[CHOOSE i \in bad : TRUE].input]>>
Init == l = 1
Next == /\ l <= Len(Rec)
        /\ LET bad == Judge(Rec[l]) IN bad # <<>> => PrintT(<<"MISMATCH", l, ToJson(bad)>>)
        /\ l' = l + 1
Spec == Init /\ [][Next]_vars
AllConsumed == TLCGet("stats").diameter - 1 = Len(Rec)
=============================================================================
