---------------------------- MODULE Trace_OnOff ----------------------------
(* C04, consequence clause: the same program compiled with gate             *)
(* de-duplication on and off computes the same outputs.  One event per      *)
(* program: the output bit vectors of both circuits (SSA and register form) *)
(* on the same sampled inputs.  The statement is that "compile" followed by *)
(* "eval" is a function of (program, input) only.                           *)
EXTENDS Naturals, Sequences, TLC, Json, IOUtils
Rec == ndJsonDeserialize(IOEnv.TRACE)
VARIABLE l
vars == <<l>>
Judge(ev) ==
    LET bad == {i \in 1..Len(ev.runs) :
                  \E c \in {"on_reg", "off_ssa", "off_reg"} : ev.runs[i][c] # ev.runs[i].on_ssa}
    IN  IF bad = {} THEN <<>> ELSE <<[input |-> ev.runs[CHOOSE i \in bad : TRUE].input]>>
Init == l = 1
Next == /\ l <= Len(Rec)
        /\ LET bad == Judge(Rec[l]) IN bad # <<>> => PrintT(<<"MISMATCH", l, ToJson(bad)>>)
        /\ l' = l + 1
Spec == Init /\ [][Next]_vars
AllConsumed == TLCGet("stats").diameter - 1 = Len(Rec)
=============================================================================
