------------------------------- MODULE Bitonic -------------------------------
(* Design layer for C13: the compare-exchange networks of circuit.rs         *)
(* (push_bitonic_merger with m = previous power of two, push_bitonic_sorter  *)
(* with descending lower / ascending upper halves) and the join pipeline of  *)
(* compile.rs (zero padding to a power of two, tag bit below the key, second *)
(* array reversed, adjacent windows with key-equal /\ tags-differ, padding   *)
(* windows skipped), checked against the oracle JoinSem (sorted-merge join). *)
(* Elements are records [key, tag, src, idx]; the networks compare on        *)
(* 2 * key + tag and never swap ties, as push_sorter does.                   *)
EXTENDS Naturals, Sequences, FiniteSets, SequencesExt, TLC, Json

CONSTANTS Mode,      \* "sort01" | "merge01" | "join"
          MaxLen,    \* sort01 / merge01: sequence lengths 1..MaxLen
          MaxN,      \* join: array lengths 1..MaxN
          KeyMax     \* join: keys 0..KeyMax

VARIABLES inp, phase
vars == <<inp, phase>>

RECURSIVE PrevPow2(_)
PrevPow2(n) == IF n <= 2 THEN 1 ELSE 2 * PrevPow2((n + 1) \div 2)   \* next_power_of_two(n) / 2

Rank(e) == 2 * e.key + e.tag
(* push_sorter + condswap: swap iff x > y *)
Lo(x, y) == IF Rank(x) > Rank(y) THEN y ELSE x
Hi(x, y) == IF Rank(x) > Rank(y) THEN x ELSE y

RECURSIVE Merger(_, _)
Merger(asc, s) ==
    IF Len(s) <= 1 THEN s
    ELSE LET n == Len(s)  m == PrevPow2(n)
             s1 == [i \in 1..n |->
                      IF i <= n - m THEN (IF asc THEN Lo(s[i], s[i + m]) ELSE Hi(s[i], s[i + m]))
                      ELSE IF i > m THEN (IF asc THEN Hi(s[i - m], s[i]) ELSE Lo(s[i - m], s[i]))
                      ELSE s[i]]
         IN  Merger(asc, SubSeq(s1, 1, m)) \o Merger(asc, SubSeq(s1, m + 1, n))

RECURSIVE Sorter(_, _)
Sorter(asc, s) ==
    IF Len(s) <= 1 THEN s
    ELSE LET h == Len(s) \div 2
         IN  Merger(asc, Sorter(~asc, SubSeq(s, 1, h)) \o Sorter(asc, SubSeq(s, h + 1, Len(s))))

Asc(s) == \A i \in 1..(Len(s) - 1) : Rank(s[i]) <= Rank(s[i + 1])
SameElems(s, t) == Len(s) = Len(t) /\ \A e \in {s[i] : i \in 1..Len(s)} :
                      Cardinality({i \in 1..Len(s) : s[i] = e}) = Cardinality({i \in 1..Len(t) : t[i] = e})

Elem01(b, i) == [key |-> b, tag |-> 0, src |-> "x", idx |-> i]

(* ---- the join pipeline (compile_bitonic_merge) on key sequences ---- *)
RECURSIVE NextPow2(_)
NextPow2(n) == IF n <= 1 THEN 1 ELSE 2 * NextPow2((n + 1) \div 2)
Pad == [key |-> 0, tag |-> 0, src |-> "pad", idx |-> 0]
Pipeline(ka, kb) ==
    LET n == Len(ka)  m == Len(kb)
        total == NextPow2(n + m)
        empty == total - n - m
        bit == [i \in 1..empty |-> Pad]
               \o [i \in 1..n |-> [key |-> ka[i], tag |-> 0, src |-> "a", idx |-> i]]
               \o [i \in 1..m |-> [key |-> kb[m + 1 - i], tag |-> 1, src |-> "b", idx |-> m + 1 - i]]
        sorted == Merger(TRUE, bit)
        wins == [w \in 1..(total - 1 - empty) |-> <<sorted[w + empty], sorted[w + empty + 1]>>]
    IN  [sorted |-> sorted,
         windows |-> wins,
         (* for every window: is it a joined pair, and which elements does the body see *)
         joined |-> SelectSeq(wins, LAMBDA w : w[1].key = w[2].key /\ w[1].tag # w[2].tag)]

(* oracle: sorted-merge join of two strictly ascending key sequences: index pairs, ascending *)
JoinSemPairs(ka, kb) ==
    LET ia == SelectSeq([i \in 1..Len(ka) |-> i], LAMBDA i : \E j \in 1..Len(kb) : kb[j] = ka[i])
    IN  [k \in 1..Len(ia) |-> <<ia[k], CHOOSE j \in 1..Len(kb) : kb[j] = ka[ia[k]]>>]

PipelineRefinesJoin(ka, kb) ==
    LET p == Pipeline(ka, kb)
        got == [k \in 1..Len(p.joined) |-> <<p.joined[k][1], p.joined[k][2]>>]
    IN  /\ Asc(p.sorted)
        /\ \A k \in 1..Len(got) : got[k][1].src = "a" /\ got[k][2].src = "b"    \* the body sees (a element, b element)
        /\ [k \in 1..Len(got) |-> <<got[k][1].idx, got[k][2].idx>>] = JoinSemPairs(ka, kb)

NonDescKeySeqs(n) == {s \in [1..n -> 0..KeyMax] : \A i \in 1..(n - 1) : s[i] <= s[i + 1]}
(* the pipeline on inputs that may repeat a key within one array: every common key is joined    *)
(* exactly once and never two elements of the same array                                       *)
PipelineJoinsCommonKeysOnce(ka, kb) ==
    LET p == Pipeline(ka, kb)
        common == {ka[i] : i \in 1..Len(ka)} \cap {kb[j] : j \in 1..Len(kb)}
    IN  /\ \A k \in 1..Len(p.joined) : p.joined[k][1].src # p.joined[k][2].src
        /\ \A c \in common : Cardinality({k \in 1..Len(p.joined) : p.joined[k][1].key = c}) = 1
        /\ \A k \in 1..Len(p.joined) : p.joined[k][1].key \in common

AscKeySeqs(n) == {s \in [1..n -> 0..KeyMax] : \A i \in 1..(n - 1) : s[i] < s[i + 1]}

Init ==
    /\ phase = "chosen"
    /\ CASE Mode = "sort01" -> \E n \in 1..MaxLen : \E s \in [1..n -> {0, 1}] : inp = [s |-> s]
         [] Mode = "merge01" ->
              (* all 0/1 bitonic inputs of the join shape: zeros, ascending part, descending part *)
              (* (the join always pads to a power of two)                                          *)
              \E n \in {k \in 1..MaxLen : NextPow2(k) = k} : \E z, o \in 0..n :
                 z + o <= n /\ inp = [s |-> [i \in 1..n |-> IF i <= z THEN 0 ELSE IF i <= z + o THEN 1 ELSE 0]]
         [] Mode = "join" ->
              \E n, m \in 1..MaxN : \E ka \in AscKeySeqs(n), kb \in AscKeySeqs(m) : inp = [ka |-> ka, kb |-> kb]
         [] Mode = "joindup" ->
              \E n, m \in 1..MaxN : \E ka \in NonDescKeySeqs(n), kb \in NonDescKeySeqs(m) : inp = [ka |-> ka, kb |-> kb]

Next == UNCHANGED vars
Spec == Init /\ [][Next]_vars

ToElems(s) == [i \in 1..Len(s) |-> Elem01(s[i], i)]
Keys(s) == [i \in 1..Len(s) |-> s[i].key]

NetworkSorts ==
    CASE Mode = "sort01" -> LET r == Sorter(TRUE, ToElems(inp.s)) IN Asc(r) /\ SameElems(r, ToElems(inp.s))
      [] Mode = "merge01" -> LET r == Merger(TRUE, ToElems(inp.s)) IN Asc(r) /\ SameElems(r, ToElems(inp.s))
      [] Mode = "join" -> PipelineRefinesJoin(inp.ka, inp.kb)
      [] Mode = "joindup" -> PipelineJoinsCommonKeysOnce(inp.ka, inp.kb)

Emit ==
    CASE Mode = "sort01" -> PrintT(<<"CASE", ToJson([kind |-> "sort", s |-> inp.s, expect |-> Keys(Sorter(TRUE, ToElems(inp.s)))])>>)
      [] Mode = "merge01" -> PrintT(<<"CASE", ToJson([kind |-> "merge", s |-> inp.s, expect |-> Keys(Merger(TRUE, ToElems(inp.s)))])>>)
      [] Mode = "join" -> PrintT(<<"CASE", ToJson([kind |-> "join", ka |-> inp.ka, kb |-> inp.kb,
                                                   pairs |-> JoinSemPairs(inp.ka, inp.kb)])>>)
      [] Mode = "joindup" -> PrintT(<<"CASE", ToJson([kind |-> "joindup", ka |-> inp.ka, kb |-> inp.kb,
                                                      common |-> SetToSortSeq({inp.ka[i] : i \in 1..Len(inp.ka)} \cap {inp.kb[j] : j \in 1..Len(inp.kb)}, <)])>>)
=============================================================================
