SPECIFICATION Spec
CONSTANTS
  NConds = 3
  MaxLen = 8
  Scheme = "fixed"
INVARIANT FirstFailureWins
INVARIANT Emit
CHECK_DEADLOCK FALSE
