------------------------------ MODULE GarbleSem ------------------------------
(* Oracle layer: the source-level semantics of Garble (C01, C02, C14).      *)
(* A definitional interpreter over an explicit state                        *)
(*     st = [scopes : Seq(name -> value),   \* innermost scope last         *)
(*           panic  : set of [r, m],        \* {} = running; otherwise the  *)
(*                                          \* admissible first failures    *)
(*           oom    : BOOLEAN]              \* left the modelled fragment   *)
(* that is threaded through every construct: blocks, loop iterations, match *)
(* arms and calls push and pop scopes, an assignment updates the innermost  *)
(* declaring scope, values are copied, a callee sees only the constants and *)
(* its parameters, and once a panic is recorded nothing else executes.      *)
(* Where the language does not fix the order of two potentially failing     *)
(* operations (initialisers of a struct literal; index expressions vs. the  *)
(* assigned value of an indexed assignment) the panic set holds every       *)
(* admissible first failure.                                                *)
(*                                                                          *)
(* Integers are TLC integers: 8/16-bit types are exact over their full      *)
(* range; for 32/64-bit types and usize only values of magnitude < 2^30 are *)
(* inside the model (anything else sets oom and the event is not judged).   *)
EXTENDS Layout, TLC, FiniteSets

LIM == 1073741824     \* 2^30

Unit == <<>>
Dead(st) == st.panic # {} \/ st.oom \/ st.tyerr
Oom(st) == [st EXCEPT !.oom = TRUE]
PanicAt(st, r, ms) == [st EXCEPT !.panic = {[r |-> r, m |-> x] : x \in ms}]
R(st, v) == [st |-> st, v |-> v]

Narrow(t) == t \in {"u8", "i8", "u16", "i16"}
KnownInt(t) == t \in IntTypes

-----------------------------------------------------------------------------
(* scopes *)
RECURSIVE LookupFrom(_, _, _)
LookupFrom(scopes, i, n) ==
    IF i = 0 THEN [found |-> FALSE, v |-> 0, t |-> [k |-> "none"]]
    ELSE IF n \in DOMAIN scopes[i] THEN [found |-> TRUE, v |-> scopes[i][n].v, t |-> scopes[i][n].t]
    ELSE LookupFrom(scopes, i - 1, n)
Lookup(st, n) == LookupFrom(st.scopes, Len(st.scopes), n)

RECURSIVE DeclScope(_, _, _)
DeclScope(scopes, i, n) ==
    IF i = 0 THEN 0 ELSE IF n \in DOMAIN scopes[i] THEN i ELSE DeclScope(scopes, i - 1, n)

Push(st) == [st EXCEPT !.scopes = Append(@, <<>>)]
Pop(st) == [st EXCEPT !.scopes = SubSeq(@, 1, Len(@) - 1)]
Bind(st, n, v, t) == [st EXCEPT !.scopes[Len(st.scopes)] = (n :> [v |-> v, t |-> t]) @@ @]
RECURSIVE BindAll(_, _)
BindAll(st, binds) ==   \* binds: sequence of <<name, value, type>>, later ones shadow earlier ones
    IF binds = <<>> THEN st ELSE BindAll(Bind(st, Head(binds)[1], Head(binds)[2], Head(binds)[3]), Tail(binds))
Assign(st, n, v) ==
    LET i == DeclScope(st.scopes, Len(st.scopes), n)
    IN  IF i = 0 THEN Oom(st) ELSE [st EXCEPT !.scopes[i] = (n :> [v |-> v, t |-> st.scopes[i][n].t]) @@ @]

-----------------------------------------------------------------------------
(* scalar operators on TLC integers, with the model limit for wide types *)
Res(tag, v) == [tag |-> tag, v |-> v]    \* tag: "ok" | "ovf" | "div" | "oom"

CheckedT(t, v) ==
    IF Narrow(t) THEN (IF InRange(t, v) THEN Res("ok", v) ELSE Res("ovf", 0))
    ELSE IF ~IsSigned(t) /\ v < 0 THEN Res("ovf", 0)
    ELSE IF Abs(v) >= LIM THEN Res("oom", 0)
    ELSE Res("ok", v)

(* bitwise operators on the infinite two's complement representation *)
RECURSIVE ZAnd(_, _), ZOr(_, _), ZXor(_, _)
ZAnd(a, b) == IF a = 0 \/ b = 0 THEN 0 ELSE IF a = -1 THEN b ELSE IF b = -1 THEN a
              ELSE (a % 2) * (b % 2) + 2 * ZAnd(a \div 2, b \div 2)
ZOr(a, b) == IF a = 0 THEN b ELSE IF b = 0 THEN a ELSE IF a = -1 \/ b = -1 THEN -1
             ELSE (IF (a % 2) + (b % 2) > 0 THEN 1 ELSE 0) + 2 * ZOr(a \div 2, b \div 2)
ZXor(a, b) == IF a = 0 THEN b ELSE IF b = 0 THEN a
              ELSE IF a = -1 THEN -b - 1 ELSE IF b = -1 THEN -a - 1
              ELSE ((a + b) % 2) + 2 * ZXor(a \div 2, b \div 2)

MulSafe(a, b) == a = 0 \/ b = 0 \/ Abs(b) <= (LIM - 1) \div Abs(a)

BinInt(op, t, a, b) ==
    LET n == BitsOf(t) IN
    CASE op = "add" -> CheckedT(t, a + b)
      [] op = "sub" -> CheckedT(t, a - b)
      [] op = "mul" -> IF MulSafe(a, b) THEN CheckedT(t, a * b)
                       ELSE IF Narrow(t) THEN Res("ovf", 0) ELSE Res("oom", 0)
      [] op = "div" -> IF b = 0 THEN Res("div", 0) ELSE CheckedT(t, TDiv(a, b))
      [] op = "mod" -> IF b = 0 THEN Res("div", 0)
                       ELSE IF IsSigned(t) /\ b = -1 /\ Narrow(t) /\ a = MinOf(t) THEN Res("free0", 0)
                       ELSE Res("ok", TRem(a, b))
      [] op = "and" -> Res("ok", ZAnd(a, b))
      [] op = "or" -> Res("ok", ZOr(a, b))
      [] op = "xor" -> Res("ok", ZXor(a, b))
      [] op = "shl" -> IF b >= n THEN Res("ovf", 0)
                       ELSE IF Narrow(t) THEN Res("ok", Wrap(t, (ToUnsigned(t, a) % Pow2(n - b)) * Pow2(b)))
                       ELSE IF b >= 30 THEN (IF a = 0 THEN Res("ok", 0) ELSE Res("oom", 0))
                       ELSE IF MulSafe(a, Pow2(b)) THEN CheckedT(t, a * Pow2(b)) ELSE Res("oom", 0)
      [] op = "shr" -> IF b >= n THEN Res("ovf", 0)
                       ELSE IF b >= 30 THEN Res("ok", IF a < 0 THEN -1 ELSE 0)
                       ELSE Res("ok", a \div Pow2(b))
      [] op = "lt" -> Res("ok", B(a < b))
      [] op = "gt" -> Res("ok", B(a > b))
      [] op = "le" -> Res("ok", B(a <= b))       \* surface forms a <= b, a >= b: operands evaluated once
      [] op = "ge" -> Res("ok", B(a >= b))

UnInt(op, t, a) ==
    IF op = "neg" THEN CheckedT(t, -a)
    ELSE (* not *) IF IsSigned(t) THEN Res("ok", -a - 1)
    ELSE IF Narrow(t) THEN Res("ok", Pow2(BitsOf(t)) - 1 - a)
    ELSE Res("oom", 0)

CastInt(from, to, v) ==   \* from, to: "bool" or an int type name
    IF to = "bool" THEN (IF from = "bool" THEN Res("ok", v) ELSE Res("oom", 0))
    ELSE IF from = "bool" THEN Res("ok", v)
    ELSE IF Narrow(to) THEN Res("ok", Wrap(to, v))
    ELSE IF v < 0 /\ ~IsSigned(to) THEN Res("oom", 0)
    ELSE Res("ok", v)

TyName(T) == IF T.k = "bool" THEN "bool" ELSE IF T.k = "int" THEN T.t ELSE "compound"

-----------------------------------------------------------------------------
(* patterns *)
IndexOfField(fs, name) == CHOOSE i \in 1..Len(fs) : fs[i].n = name
HasField(fs, name) == \E i \in 1..Len(fs) : fs[i].n = name

RECURSIVE MatchP(_, _, _), MatchSeq(_, _, _, _)
(* result: [ok, binds] *)
MatchP(prog, p, v) ==
    CASE p.k = "pid" -> [ok |-> TRUE, binds |-> << <<p.n, v, p.ty>> >>]
      [] p.k = "ptrue" -> [ok |-> v = 1, binds |-> <<>>]
      [] p.k = "pfalse" -> [ok |-> v = 0, binds |-> <<>>]
      [] p.k = "pnum" -> [ok |-> v = p.v, binds |-> <<>>]
      [] p.k = "prange" -> [ok |-> p.lo <= v /\ v <= p.hi, binds |-> <<>>]
      [] p.k = "ptup" -> MatchSeq(prog, p.ps, v, 1)
      [] p.k = "pstruct" ->
            LET fs == prog.structs[p.name]
                ps == [i \in 1..Len(p.fs) |-> p.fs[i].p]
                vs == [i \in 1..Len(p.fs) |-> v[IndexOfField(fs, p.fs[i].n)]]
            IN  MatchSeq(prog, ps, vs, 1)
      [] p.k = "penum" ->
            LET vs == prog.enums[p.name]
                idx == CHOOSE i \in 1..Len(vs) : vs[i].n = p.v
            IN  IF v.tag # idx - 1 THEN [ok |-> FALSE, binds |-> <<>>]
                ELSE MatchSeq(prog, p.ps, v.f, 1)
MatchSeq(prog, ps, vs, i) ==
    IF i > Len(ps) THEN [ok |-> TRUE, binds |-> <<>>]
    ELSE LET h == MatchP(prog, ps[i], vs[i])
             t == MatchSeq(prog, ps, vs, i + 1)
         IN  [ok |-> h.ok /\ t.ok, binds |-> h.binds \o t.binds]

-----------------------------------------------------------------------------
(* join: pairs of elements with equal keys, ascending (inputs strictly ascending) *)
KeyOf(T, v) == IF T.k = "tup" THEN v[1] ELSE v
StrictlyAscending(keys) == \A i \in 1..(Len(keys) - 1) : keys[i] < keys[i + 1]
BitsLess(x, y) == \E i \in 1..Len(x) : x[i] < y[i] /\ \A j \in 1..(i - 1) : x[j] = y[j]
BitsStrictlyAscending(keys) == \A i \in 1..(Len(keys) - 1) : BitsLess(keys[i], keys[i + 1])
JoinPairs(ea, eb, va, vb) ==
    LET ia == SelectSeq([i \in 1..Len(va) |-> i],
                        LAMBDA i : \E j \in 1..Len(vb) : KeyOf(ea, va[i]) = KeyOf(eb, vb[j]))
    IN  [k \in 1..Len(ia) |->
            << va[ia[k]], vb[CHOOSE j \in 1..Len(vb) : KeyOf(eb, vb[j]) = KeyOf(ea, va[ia[k]])] >>]

-----------------------------------------------------------------------------
(* functional update of a value along an accessor path; idxs are the        *)
(* evaluated indices (0-based) of the "idx" accessors in path order         *)
RECURSIVE Update(_, _, _, _, _)
Update(prog, v, acc, idxs, new) ==
    IF acc = <<>> THEN new
    ELSE LET a == Head(acc) IN
         IF a.k = "idx"
         THEN [v EXCEPT ![Head(idxs) + 1] = Update(prog, v[Head(idxs) + 1], Tail(acc), Tail(idxs), new)]
         ELSE IF a.k = "tup"
         THEN [v EXCEPT ![a.i + 1] = Update(prog, v[a.i + 1], Tail(acc), idxs, new)]
         ELSE LET j == IndexOfField(prog.structs[a.cty.name], a.f)
              IN  [v EXCEPT ![j] = Update(prog, v[j], Tail(acc), idxs, new)]

(* the value of the place reached along an accessor path *)
RECURSIVE ReadPlace(_, _, _, _)
ReadPlace(prog, v, acc, idxs) ==
    IF acc = <<>> THEN v
    ELSE LET a == Head(acc) IN
         IF a.k = "idx" THEN ReadPlace(prog, v[Head(idxs) + 1], Tail(acc), Tail(idxs))
         ELSE IF a.k = "tup" THEN ReadPlace(prog, v[a.i + 1], Tail(acc), idxs)
         ELSE ReadPlace(prog, v[IndexOfField(prog.structs[a.cty.name], a.f)], Tail(acc), idxs)

(* which index accessors are out of bounds, walking the path *)
RECURSIVE OobSet(_, _, _, _)
OobSet(prog, v, acc, idxs) ==   \* set of metas of out-of-bounds index accessors (first one only)
    IF acc = <<>> THEN {}
    ELSE LET a == Head(acc) IN
         IF a.k = "idx"
         THEN (IF Head(idxs) >= Len(v) THEN {a.m}
               ELSE OobSet(prog, v[Head(idxs) + 1], Tail(acc), Tail(idxs)))
         ELSE IF a.k = "tup" THEN OobSet(prog, v[a.i + 1], Tail(acc), idxs)
         ELSE OobSet(prog, v[IndexOfField(prog.structs[a.cty.name], a.f)], Tail(acc), idxs)

(* the same for a group in which some index expressions failed: the bounds of an index are judged as soon  *)
(* as that index expression (and the ones before it) completed - whether a later index expression or the  *)
(* assigned value failed does not matter, their order relative to the bounds check is free                *)
RECURSIVE OobSetP(_, _, _, _, _)
OobSetP(prog, v, acc, idxs, oks) ==
    IF acc = <<>> THEN {}
    ELSE LET a == Head(acc) IN
         IF a.k = "idx"
         THEN (IF ~Head(oks) THEN {}
               ELSE IF Head(idxs) >= Len(v) THEN {a.m}
               ELSE OobSetP(prog, v[Head(idxs) + 1], Tail(acc), Tail(idxs), Tail(oks)))
         ELSE IF a.k = "tup" THEN OobSetP(prog, v[a.i + 1], Tail(acc), idxs, oks)
         ELSE OobSetP(prog, v[IndexOfField(prog.structs[a.cty.name], a.f)], Tail(acc), idxs, oks)

-----------------------------------------------------------------------------
(* the interpreter *)
RECURSIVE Eval(_, _, _), EvalSeq(_, _, _, _), EvalGroup(_, _, _, _, _),
          ExecStmt(_, _, _), ExecStmts(_, _, _, _), ExecBlock(_, _, _),
          ExecArms(_, _, _, _, _), ExecFor(_, _, _, _, _), ExecPairs(_, _, _, _, _)

(* ordered: left to right, stops at the first failure *)
EvalSeq(prog, es, st, acc) ==
    IF es = <<>> \/ Dead(st) THEN [st |-> st, vs |-> acc]
    ELSE LET r == Eval(prog, Head(es), st)
         IN  EvalSeq(prog, Tail(es), r.st, Append(acc, r.v))

(* unordered: every member's failure is an admissible first failure *)
EvalGroup(prog, es, st, acc, panics) ==
    IF st.oom THEN [st |-> st, vs |-> acc.vs, oks |-> acc.oks]
    ELSE IF es = <<>> THEN [st |-> [st EXCEPT !.panic = panics], vs |-> acc.vs, oks |-> acc.oks]
    ELSE LET r == Eval(prog, Head(es), [st EXCEPT !.panic = {}])
         IN  EvalGroup(prog, Tail(es), r.st,
                       [vs |-> Append(acc.vs, r.v), oks |-> Append(acc.oks, r.st.panic = {})],
                       panics \cup r.st.panic)

ExecBlock(prog, ss, st) ==
    LET r == ExecStmts(prog, ss, Push(st), Unit)
    IN  R(Pop(r.st), r.v)

ExecStmts(prog, ss, st, last) ==
    IF ss = <<>> \/ Dead(st) THEN R(st, last)
    ELSE LET r == ExecStmt(prog, Head(ss), st)
         IN  ExecStmts(prog, Tail(ss), r.st, r.v)

ExecArms(prog, arms, i, v, st) ==
    IF i > Len(arms) THEN R(Oom(st), 0)     \* no arm matches: not a well-typed program
    ELSE LET mr == MatchP(prog, arms[i].p, v)
         IN  IF mr.ok
             THEN LET r == Eval(prog, arms[i].b, BindAll(Push(st), mr.binds))
                  IN  R(Pop(r.st), r.v)
             ELSE ExecArms(prog, arms, i + 1, v, st)

ExecFor(prog, s, vs, i, st) ==
    IF i > Len(vs) \/ Dead(st) THEN st
    ELSE LET mr == MatchP(prog, s.p, vs[i])
         IN  IF ~mr.ok THEN Oom(st)
             ELSE LET r == ExecStmts(prog, s.body, BindAll(Push(st), mr.binds), Unit)
                  IN  ExecFor(prog, s, vs, i + 1, Pop(r.st))

ExecPairs(prog, s, pairs, i, st) ==
    IF i > Len(pairs) \/ Dead(st) THEN st
    ELSE LET mr == MatchP(prog, s.p, pairs[i])
         IN  IF ~mr.ok THEN Oom(st)
             ELSE LET r == ExecStmts(prog, s.body, BindAll(Push(st), mr.binds), Unit)
                  IN  ExecPairs(prog, s, pairs, i + 1, Pop(r.st))

ExecStmt(prog, s, st) ==
    IF Dead(st) THEN R(st, Unit)
    ELSE
    CASE s.k = "expr" -> Eval(prog, s.e, st)
      [] s.k = "let" ->
            LET r == Eval(prog, s.e, st)
            IN  IF Dead(r.st) THEN R(r.st, Unit)
                ELSE LET mr == MatchP(prog, s.p, r.v)
                     IN  IF mr.ok THEN R(BindAll(r.st, mr.binds), Unit) ELSE R(Oom(r.st), Unit)
      [] s.k = "letmut" ->
            LET r == Eval(prog, s.e, st)
            IN  IF Dead(r.st) THEN R(r.st, Unit) ELSE R(Bind(r.st, s.n, r.v, s.e.ty), Unit)
      [] s.k = "assign" ->
            LET idxAccs == SelectSeq(s.acc, LAMBDA a : a.k = "idx")
                members == [i \in 1..Len(idxAccs) |-> idxAccs[i].i] \o <<s.e>>
                g == IF Len(idxAccs) = 0
                     THEN LET r == Eval(prog, s.e, st) IN [st |-> r.st, vs |-> <<r.v>>, oks |-> <<r.st.panic = {}>>]
                     ELSE EvalGroup(prog, members, st, [vs |-> <<>>, oks |-> <<>>], {})
                cur == Lookup(g.st, s.n)
            IN  IF g.st.oom \/ ~cur.found THEN R(Oom(g.st), Unit)
                ELSE LET idxs == SubSeq(g.vs, 1, Len(idxAccs))
                         idxOk == \A i \in 1..Len(idxAccs) : g.oks[i]
                         (* bounds are judged whenever the index expressions completed, whether or  *)
                         (* not the assigned value failed: the order between them is free           *)
                         oob == OobSetP(prog, cur.v, s.acc, idxs, SubSeq(g.oks, 1, Len(idxAccs)))
                         oobPanics == IF oob = {} THEN {}
                                      ELSE {[r |-> REASON_OOB, m |-> x] : x \in oob \cup {s.m}}
                     IN  IF g.st.panic \cup oobPanics # {}
                         THEN R([g.st EXCEPT !.panic = g.st.panic \cup oobPanics], Unit)
                         ELSE R(Assign(g.st, s.n, Update(prog, cur.v, s.acc, idxs, g.vs[Len(g.vs)])), Unit)
      [] s.k = "opassign" ->
            (* surface form  place op= e : index expressions and e are evaluated exactly once (their mutual order *)
            (* is free, as for an assignment), then place = place op e                                            *)
            LET idxAccs == SelectSeq(s.acc, LAMBDA a : a.k = "idx")
                members == [i \in 1..Len(idxAccs) |-> idxAccs[i].i] \o <<s.e>>
                g == IF Len(idxAccs) = 0
                     THEN LET r == Eval(prog, s.e, st) IN [st |-> r.st, vs |-> <<r.v>>, oks |-> <<r.st.panic = {}>>]
                     ELSE EvalGroup(prog, members, st, [vs |-> <<>>, oks |-> <<>>], {})
                cur == Lookup(g.st, s.n)
                T == s.pty
            IN  IF g.st.oom \/ ~cur.found THEN R(Oom(g.st), Unit)
                ELSE LET idxs == SubSeq(g.vs, 1, Len(idxAccs))
                         idxOk == \A i \in 1..Len(idxAccs) : g.oks[i]
                         oob == OobSetP(prog, cur.v, s.acc, idxs, SubSeq(g.oks, 1, Len(idxAccs)))
                         oobPanics == IF oob = {} THEN {}
                                      ELSE {[r |-> REASON_OOB, m |-> x] : x \in oob \cup {s.m}}
                     IN  IF g.st.panic \cup oobPanics # {}
                         THEN R([g.st EXCEPT !.panic = g.st.panic \cup oobPanics], Unit)
                         ELSE LET old == ReadPlace(prog, cur.v, s.acc, idxs)
                                  (* whether the place is read before or after e is evaluated is not fixed (Rust reads it *)
                                  (* after e for primitives, the rewritten form place = place op e before): if e or an   *)
                                  (* index expression writes the place itself, the statement is outside the model        *)
                                  before == Lookup(st, s.n)
                                  oldBefore == IF before.found /\ OobSet(prog, before.v, s.acc, idxs) = {}
                                               THEN ReadPlace(prog, before.v, s.acc, idxs) ELSE old
                                  val == g.vs[Len(g.vs)]
                              IN  IF oldBefore # old THEN R(Oom(g.st), Unit)
                                  ELSE IF T.k = "bool"
                                  THEN (IF s.op \in {"and", "or", "xor"}
                                        THEN R(Assign(g.st, s.n, Update(prog, cur.v, s.acc, idxs, BoolBin(s.op, old, val))), Unit)
                                        ELSE R(Oom(g.st), Unit))
                                  ELSE IF T.k # "int" \/ ~KnownInt(T.t) THEN R(Oom(g.st), Unit)
                                  ELSE LET o == BinInt(s.op, T.t, old, val)
                                       IN  IF o.tag = "ok" THEN R(Assign(g.st, s.n, Update(prog, cur.v, s.acc, idxs, o.v)), Unit)
                                           ELSE IF o.tag = "ovf" THEN R(PanicAt(g.st, REASON_OVERFLOW, {s.m}), Unit)
                                           ELSE IF o.tag = "div" THEN R(PanicAt(g.st, REASON_DIVZERO, {s.m}), Unit)
                                           ELSE R(Oom(g.st), Unit)
      [] s.k = "for" ->
            LET r == Eval(prog, s.e, st)
            IN  IF Dead(r.st) THEN R(r.st, Unit) ELSE R(ExecFor(prog, s, r.v, 1, r.st), Unit)
      [] s.k = "forjoin" ->
            LET ra == Eval(prog, s.a, st)
                rb == IF Dead(ra.st) THEN ra ELSE Eval(prog, s.b, ra.st)
            IN  IF Dead(rb.st) THEN R(rb.st, Unit)
                ELSE LET ea == s.a.ty.e  eb == s.b.ty.e
                         (* keys are compared as bit strings in the documented layout *)
                         ka == [i \in 1..Len(ra.v) |-> Encode(prog, s.jty, KeyOf(ea, ra.v[i]))]
                         kb == [i \in 1..Len(rb.v) |-> Encode(prog, s.jty, KeyOf(eb, rb.v[i]))]
                     IN  IF ~BitsStrictlyAscending(ka) \/ ~BitsStrictlyAscending(kb)
                         THEN R(Oom(rb.st), Unit)     \* precondition of the join (strictly ascending keys) not met
                         ELSE R(ExecPairs(prog, s, JoinPairs(ea, eb, ra.v, rb.v), 1, rb.st), Unit)

Eval(prog, e, st) ==
    IF Dead(st) THEN R(st, 0)
    ELSE
    CASE e.k = "true" -> R(st, 1)
      [] e.k = "false" -> R(st, 0)
      [] e.k = "num" -> IF e.ty.k = "int" /\ KnownInt(e.ty.t) THEN R(st, e.v) ELSE R(Oom(st), 0)
      [] e.k = "var" ->
            LET l == Lookup(st, e.n)
            IN  IF ~l.found THEN R(Oom(st), 0)
                (* the type the checker attached to this use must be the declared type of the *)
                (* binding that is in scope here                                              *)
                ELSE IF l.t # e.ty THEN R([st EXCEPT !.tyerr = TRUE], 0)
                ELSE R(st, l.v)
      [] e.k = "arrlit" -> LET r == EvalSeq(prog, e.es, st, <<>>) IN R(r.st, r.vs)
      [] e.k = "tuplit" -> LET r == EvalSeq(prog, e.es, st, <<>>) IN R(r.st, r.vs)
      [] e.k = "arrrep" ->
            LET r == Eval(prog, e.e, st) IN R(r.st, [i \in 1..e.n |-> r.v])
      [] e.k = "range" -> R(st, [i \in 1..(e.hi - e.lo) |-> e.lo + i - 1])
      [] e.k = "idx" ->
            LET ra == Eval(prog, e.a, st)
                ri == IF Dead(ra.st) THEN ra ELSE Eval(prog, e.i, ra.st)
            IN  IF Dead(ri.st) THEN R(ri.st, 0)
                ELSE IF ri.v >= Len(ra.v) THEN R(PanicAt(ri.st, REASON_OOB, {e.m}), 0)
                ELSE R(ri.st, ra.v[ri.v + 1])
      [] e.k = "tupacc" ->
            LET r == Eval(prog, e.e, st) IN IF Dead(r.st) THEN R(r.st, 0) ELSE R(r.st, r.v[e.i + 1])
      [] e.k = "sacc" ->
            LET r == Eval(prog, e.e, st)
            IN  IF Dead(r.st) THEN R(r.st, 0)
                ELSE R(r.st, r.v[IndexOfField(prog.structs[e.e.ty.name], e.f)])
      [] e.k = "slit" ->
            LET fs == prog.structs[e.name]
                (* initialisers in definition order; their relative order is free *)
                inits == [i \in 1..Len(fs) |-> e.fs[CHOOSE j \in 1..Len(e.fs) : e.fs[j].n = fs[i].n].e]
            IN  IF Len(e.fs) # Len(fs) \/ \E i \in 1..Len(fs) : ~\E j \in 1..Len(e.fs) : e.fs[j].n = fs[i].n
                THEN R(Oom(st), 0)
                ELSE LET g == EvalGroup(prog, inits, st, [vs |-> <<>>, oks |-> <<>>], {}) IN R(g.st, g.vs)
      [] e.k = "elit" ->
            LET vs == prog.enums[e.name]
                idx == CHOOSE i \in 1..Len(vs) : vs[i].n = e.v
                r == EvalSeq(prog, e.es, st, <<>>)
            IN  R(r.st, [tag |-> idx - 1, f |-> r.vs])
      [] e.k = "match" ->
            LET r == Eval(prog, e.e, st)
            IN  IF Dead(r.st) THEN R(r.st, 0) ELSE ExecArms(prog, e.arms, 1, r.v, r.st)
      [] e.k = "un" ->
            LET r == Eval(prog, e.e, st)
            IN  IF Dead(r.st) THEN R(r.st, 0)
                ELSE IF e.ty.k = "bool" THEN R(r.st, 1 - r.v)
                ELSE IF e.ty.k # "int" \/ ~KnownInt(e.ty.t) THEN R(Oom(r.st), 0)
                ELSE LET o == UnInt(e.op, e.ty.t, r.v)
                     IN  IF o.tag = "ok" THEN R(r.st, o.v)
                         ELSE IF o.tag = "ovf" THEN R(PanicAt(r.st, REASON_OVERFLOW, {e.m}), 0)
                         ELSE R(Oom(r.st), 0)
      [] e.k = "bin" ->
            IF e.op \in {"land", "lor"}
            THEN LET rl == Eval(prog, e.l, st)
                 IN  IF Dead(rl.st) THEN R(rl.st, 0)
                     ELSE IF (e.op = "land" /\ rl.v = 0) \/ (e.op = "lor" /\ rl.v = 1) THEN R(rl.st, rl.v)
                     ELSE Eval(prog, e.r, rl.st)
            ELSE
            LET rl == Eval(prog, e.l, st)
                rr == IF Dead(rl.st) THEN rl ELSE Eval(prog, e.r, rl.st)
                T == e.l.ty
            IN  IF Dead(rr.st) THEN R(rr.st, 0)
                ELSE IF e.op = "eq" THEN R(rr.st, B(rl.v = rr.v))
                ELSE IF e.op = "ne" THEN R(rr.st, B(rl.v # rr.v))
                ELSE IF T.k = "bool"
                THEN (IF e.op \in {"and", "or", "xor"} THEN R(rr.st, BoolBin(e.op, rl.v, rr.v)) ELSE R(Oom(rr.st), 0))
                ELSE IF T.k # "int" \/ ~KnownInt(T.t) \/ (e.op \notin ShiftOps /\ e.r.ty # T) THEN R(Oom(rr.st), 0)
                ELSE LET o == BinInt(e.op, T.t, rl.v, rr.v)
                     IN  IF o.tag = "ok" THEN R(rr.st, o.v)
                         ELSE IF o.tag = "ovf" THEN R(PanicAt(rr.st, REASON_OVERFLOW, {e.m}), 0)
                         ELSE IF o.tag = "div" THEN R(PanicAt(rr.st, REASON_DIVZERO, {e.m}), 0)
                         ELSE R(Oom(rr.st), 0)      \* "oom" and the free MIN % -1 case
      [] e.k = "block" -> ExecBlock(prog, e.ss, st)
      [] e.k = "call" ->
            LET fd == prog.fns[e.f]
                ra == EvalSeq(prog, e.args, st, <<>>)
            IN  IF Dead(ra.st) THEN R(ra.st, 0)
                ELSE LET callee == [ra.st EXCEPT !.scopes =
                                      << ra.st.scopes[1],
                                         [n \in {fd.params[i].n : i \in 1..Len(fd.params)} |->
                                            LET pi == CHOOSE i \in 1..Len(fd.params) :
                                                        fd.params[i].n = n
                                                        /\ \A j \in (i + 1)..Len(fd.params) : fd.params[j].n # n
                                            IN  [v |-> ra.vs[pi], t |-> fd.params[pi].t]] >>]
                         rb == ExecBlock(prog, fd.body, callee)
                     IN  R([rb.st EXCEPT !.scopes = ra.st.scopes], rb.v)
      [] e.k = "if" ->
            LET rc == Eval(prog, e.c, st)
            IN  IF Dead(rc.st) THEN R(rc.st, 0)
                ELSE IF rc.v = 1 THEN Eval(prog, e.t, rc.st) ELSE Eval(prog, e.f, rc.st)
      [] e.k = "cast" ->
            LET r == Eval(prog, e.e, st)
            IN  IF Dead(r.st) THEN R(r.st, 0)
                ELSE LET from == TyName(e.e.ty)  to == TyName(e.to)
                     IN  IF from = "compound" \/ to = "compound" \/ from = "unspec" \/ to = "unspec"
                         THEN R(Oom(r.st), 0)
                         ELSE LET o == CastInt(from, to, r.v)
                              IN  IF o.tag = "ok" THEN R(r.st, o.v) ELSE R(Oom(r.st), 0)
      [] e.k = "join" -> R(Oom(st), 0)      \* the join built-in is judged by JoinSem (C13)

(* run fn `main` of prog on the argument values args (one per parameter) *)
Run(prog, args) ==
    LET fd == prog.fns[prog.main]
        consts == [n \in (DOMAIN prog.consts) \ {"_"} |-> [v |-> prog.consts[n].v, t |-> prog.consts[n].ty]]
        params == [n \in {fd.params[i].n : i \in 1..Len(fd.params)} |->
                      LET pi == CHOOSE i \in 1..Len(fd.params) : fd.params[i].n = n
                      IN  [v |-> args[pi], t |-> fd.params[pi].t]]
        st0 == [scopes |-> <<consts, params>>, panic |-> {}, oom |-> FALSE, tyerr |-> FALSE]
    IN  ExecBlock(prog, fd.body, st0)
=============================================================================
