SPECIFICATION Spec
CONSTANTS
  Mode = "merge01"
  MaxLen = 16
  MaxN = 1
  KeyMax = 1
INVARIANT NetworkSorts
INVARIANT Emit
CHECK_DEADLOCK FALSE
