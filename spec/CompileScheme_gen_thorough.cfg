SPECIFICATION Spec
CONSTANTS
  NConds = 2
  MaxLen = 5
  Scheme = "fixed"
INVARIANT Emit
CHECK_DEADLOCK FALSE
