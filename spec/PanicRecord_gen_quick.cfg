SPECIFICATION Spec
CONSTANTS
  NConds = 3
  MaxLen = 4
  Scheme = "fixed"
INVARIANT Emit
CHECK_DEADLOCK FALSE
