----------------------------- MODULE Gen_IntOps -----------------------------
(* Generator for C03 (spec -> implementation): the complete result tables   *)
(* of every operator on u8 / i8 and of every cast from 8- and 16-bit        *)
(* sources, one row (fixed left operand, all right operands) per state.     *)
EXTENDS IntOps, TLC, Json, FiniteSets

CONSTANT Mode    \* "bin8" | "un8" | "cast" | "castq" (16-bit sources: boundary blocks only)

VARIABLES row, done
vars == <<row, done>>

Tys8 == {"u8", "i8"}
Vals(ty) == MinOf(ty)..MaxOf(ty)
SeqOfRange(lo, hi) == [i \in 1..(hi - lo + 1) |-> lo + i - 1]

SrcTypes == {"bool", "u8", "i8", "u16", "i16"}
AllTypes == {"bool", "u8", "i8", "u16", "i16", "u32", "i32", "u64", "i64", "usize"}
ValsOf(ty) == IF ty = "bool" THEN 0..1 ELSE Vals(ty)

Init == row = <<>> /\ done = FALSE

PickBin ==
    \E op \in BinOps, ty \in Tys8 : \E a \in Vals(ty) :
        LET bty == IF op \in ShiftOps THEN "u8" ELSE ty
            bs == SeqOfRange(MinOf(bty), MaxOf(bty))
        IN  row' = [kind |-> "bin", op |-> op, ty |-> ty, a |-> a,
                    outs |-> [i \in 1..Len(bs) |-> Bin(op, ty, a, bs[i])]]
PickUn ==
    \/ \E op \in UnOps, ty \in Tys8 :
        /\ (op = "neg" => IsSigned(ty))
        /\ LET vs == SeqOfRange(MinOf(ty), MaxOf(ty))
           IN  row' = [kind |-> "un", op |-> op, ty |-> ty,
                       outs |-> [i \in 1..Len(vs) |-> Un(op, ty, vs[i])]]
    \/ \E bop \in {"and", "or", "xor", "eq", "ne"} :
          row' = [kind |-> "boolbin", op |-> bop, ty |-> "bool",
                  outs |-> << BoolBin(bop, 0, 0), BoolBin(bop, 0, 1), BoolBin(bop, 1, 0), BoolBin(bop, 1, 1) >>]
(* one row = 256 consecutive source values *)
PickCast ==
    \E from \in SrcTypes, to \in AllTypes :
      \E blk \in (IF BitsOf(from) # 16 THEN {0} ELSE IF Mode = "castq" THEN {0, 1, 127, 128, 254, 255} ELSE 0..255) :
        LET lo == IF from = "bool" THEN 0 ELSE MinOf(from) + 256 * blk
            hi == IF from = "bool" THEN 1 ELSE IF BitsOf(from) = 8 THEN MaxOf(from) ELSE lo + 255
            vs == SeqOfRange(lo, hi)
        IN  row' = [kind |-> "cast", from |-> from, to |-> to, lo |-> lo,
                    bits |-> [i \in 1..Len(vs) |-> CastBits(from, to, vs[i])],
                    alt |-> IF to = "bool" /\ from # "bool"
                            THEN [i \in 1..Len(vs) |-> <<CastToBoolAlt(vs[i])>>] ELSE <<>>]

Next == /\ ~done
        /\ done' = TRUE
        /\ CASE Mode = "bin8" -> PickBin
             [] Mode = "un8" -> PickUn
             [] Mode \in {"cast", "castq"} -> PickCast

Spec == Init /\ [][Next]_vars
Emit == done => PrintT(<<"CASE", ToJson(row)>>)

(* internal consistency of the oracle, checked on every emitted row:        *)
(* checked results are in range, comparison rows are Boolean                *)
RowSane ==
    (done /\ row.kind = "bin") =>
        \A i \in 1..Len(row.outs) :
            LET o == row.outs[i]
            IN  \/ o \in {OVERFLOW, DIVZERO, ZERO_OR_OVERFLOW}
                \/ IF row.op \in CmpOps THEN o \in {0, 1} ELSE InRange(row.ty, o)
=============================================================================
