SPECIFICATION Spec
CONSTANTS
  Site = "const_bind"
  Keys = {1, 2, 3, 4}
INVARIANT OrderIndependence
CHECK_DEADLOCK FALSE
