SPECIFICATION Spec
CONSTANTS
  MaxLen = 5
  EofExitsBlockComment = TRUE
INVARIANT Terminates
INVARIANT InBounds
CHECK_DEADLOCK FALSE
