---------------------------- MODULE CompileScheme ----------------------------
(* Design layer: how src/compile.rs threads the environment (Env = stack of  *)
(* scopes, name -> wires) through control flow: both branches of an `if` are  *)
(* compiled on clones and the environments are muxed, a block pushes and pops *)
(* a scope, every iteration of a `for` body gets its own scope, the right     *)
(* operand of && runs on a clone that is muxed with the environment before.   *)
(* A program is an *environment skeleton*: a well-bracketed instruction list  *)
(* over the variables a, b (both `let mut` at the top of main):               *)
(*   let(x)   let x = K;       letmut(x)  let mut x = K;     asg(x)  x = K;   *)
(*   cpy(x)   x = other(x);    (K = a constant unique to the instruction)     *)
(*   if(c) .. else .. end    blk .. end    loop .. end (two iterations)       *)
(*   and(c) .. end           (c && { ..; true })                              *)
(*   match .. arm .. arm .. end    match (c1, c2) { (true, _) => {..},        *)
(*                                 (false, true) => {..}, _ => {..} }         *)
(*   callc(x)  x = h(x);  with  fn h(p: u8) -> u8 { A }  where A is a         *)
(*             top-level constant that main's variable of the same name      *)
(*             shadows: the callee sees the constant (7), never the caller's  *)
(*             variable                                                       *)
(* A world assigns a truth value to every condition.                          *)
(*                                                                            *)
(* Oracle: the sequential semantics (only the taken branch runs).             *)
(* Machine: the compile scheme, values kept per world, one action per         *)
(* instruction.  Checked: SchemeRefinesSem - at the end the value of a and b  *)
(* in every world equals the oracle's.                                        *)
(* Scheme = "fixed"        the code after 162c4e5, d1e67ed                    *)
(* Scheme = "loop-shared"  one scope for all iterations (superseded): refuted *)
(* Scheme = "and-no-mux"   && compiled on the caller's env (superseded):      *)
(*                         refuted                                            *)
(* Scheme = "call-sees-caller"  the callee is compiled on the caller's scopes *)
(*                         (superseded, repaired by d681b06): refuted         *)
(* Every skeleton is emitted and rendered to a Garble program that the real   *)
(* compiler evaluates in every world (C14).                                   *)
EXTENDS Naturals, Sequences, FiniteSets, TLC, Json
CONSTANTS NConds, MaxLen, Scheme

Conds == 1..NConds
Worlds == [Conds -> BOOLEAN]
Vars == {"a", "b"}
Other(x) == IF x = "a" THEN "b" ELSE "a"
I(op, x, c) == [op |-> op, x |-> x, c |-> c]
Alphabet == {I(op, x, 0) : op \in {"let", "letmut", "asg", "cpy", "callc"}, x \in Vars}
            \cup {I(op, "-", c) : op \in {"if", "and"}, c \in Conds}
            \cup {I("else", "-", 0), I("end", "-", 0), I("blk", "-", 0), I("loop", "-", 0)}
            \cup (IF NConds >= 2 THEN {I("match", "-", 0), I("arm", "-", 0)} ELSE {})

(* ---- static well-formedness: brackets, and asg/cpy only on a binding that is mutable where it is used ---- *)
(* scan state: stack of frames [k, elseSeen, mut: Vars -> BOOLEAN (mutability of the innermost visible binding)] *)
Bad == << [k |-> "bad"] >>
Mut0 == [x \in Vars |-> TRUE]
RECURSIVE Scan(_, _, _)
Scan(p, i, st) ==
    IF i > Len(p) THEN st
    ELSE LET x == p[i]
             top == st[Len(st)]
         IN
         CASE x.op = "let" -> Scan(p, i + 1, [st EXCEPT ![Len(st)].mut[x.x] = FALSE])
           [] x.op = "letmut" -> Scan(p, i + 1, [st EXCEPT ![Len(st)].mut[x.x] = TRUE])
           [] x.op \in {"asg", "cpy", "callc"} -> IF top.mut[x.x] THEN Scan(p, i + 1, st) ELSE Bad
           [] x.op \in {"if", "and", "blk", "loop", "match"} -> Scan(p, i + 1, Append(st, [k |-> x.op, els |-> FALSE, arms |-> 0, mut |-> top.mut, mut0 |-> top.mut]))
           [] x.op = "arm" -> IF Len(st) > 1 /\ top.k = "match" /\ top.arms < 2
                              THEN Scan(p, i + 1, [st EXCEPT ![Len(st)].arms = top.arms + 1, ![Len(st)].mut = top.mut0]) ELSE Bad
           [] x.op = "else" -> IF Len(st) > 1 /\ top.k = "if" /\ ~top.els
                               THEN Scan(p, i + 1, [st EXCEPT ![Len(st)].els = TRUE, ![Len(st)].mut = top.mut0]) ELSE Bad
           [] x.op = "end" -> IF Len(st) > 1 /\ (top.k = "if" => top.els) /\ (top.k = "match" => top.arms = 2)
                              THEN Scan(p, i + 1, SubSeq(st, 1, Len(st) - 1)) ELSE Bad
Open(p) == Scan(p, 1, << [k |-> "main", els |-> FALSE, arms |-> 0, mut |-> Mut0, mut0 |-> Mut0] >>)
RECURSIVE Need(_)
Need(st) == IF Len(st) <= 1 THEN 0
            ELSE (IF st[Len(st)].k = "if" /\ ~st[Len(st)].els THEN 2
                  ELSE IF st[Len(st)].k = "match" THEN 3 - st[Len(st)].arms ELSE 1) + Need(SubSeq(st, 1, Len(st) - 1))
Writes(p) == \E i \in 1..Len(p) : p[i].op \in {"asg", "cpy", "callc"}

(* matching positions *)
Openers == {"if", "and", "blk", "loop", "match"}
RECURSIVE ArmOf(_, _, _, _)
ArmOf(p, i, depth, n) ==      \* position of the n-th `arm` separator of the match whose first inner instruction is i
    IF p[i].op \in Openers THEN ArmOf(p, i + 1, depth + 1, n)
    ELSE IF p[i].op = "end" THEN ArmOf(p, i + 1, depth - 1, n)
    ELSE IF p[i].op = "arm" /\ depth = 0 THEN (IF n = 1 THEN i ELSE ArmOf(p, i + 1, depth, n - 1))
    ELSE ArmOf(p, i + 1, depth, n)
RECURSIVE EndOf(_, _, _)
EndOf(p, i, depth) ==         \* position of the `end` closing the construct opened before i (i = first instruction inside)
    IF p[i].op \in Openers THEN EndOf(p, i + 1, depth + 1)
    ELSE IF p[i].op = "end" THEN (IF depth = 0 THEN i ELSE EndOf(p, i + 1, depth - 1))
    ELSE EndOf(p, i + 1, depth)
RECURSIVE ElseOf(_, _, _)
ElseOf(p, i, depth) ==
    IF p[i].op \in Openers THEN ElseOf(p, i + 1, depth + 1)
    ELSE IF p[i].op = "end" THEN ElseOf(p, i + 1, depth - 1)
    ELSE IF p[i].op = "else" /\ depth = 0 THEN i
    ELSE ElseOf(p, i + 1, depth)

(* ---- environments: sequence of scopes; a scope is a function from a subset of Vars to a value ---- *)
Lookup(env, x) == LET i == CHOOSE i \in 1..Len(env) : x \in DOMAIN env[i] /\ \A j \in (i + 1)..Len(env) : x \notin DOMAIN env[j] IN env[i][x]
Bind(env, x, v) == [env EXCEPT ![Len(env)] = [y \in DOMAIN env[Len(env)] \cup {x} |-> IF y = x THEN v ELSE env[Len(env)][y]]]
Assign(env, x, v) == LET i == CHOOSE i \in 1..Len(env) : x \in DOMAIN env[i] /\ \A j \in (i + 1)..Len(env) : x \notin DOMAIN env[j]
                     IN [env EXCEPT ![i][x] = v]
Push(env) == Append(env, <<>>)
PopE(env) == SubSeq(env, 1, Len(env) - 1)

(* ---- oracle: sequential execution in one world (values are naturals) ---- *)
Env0 == << [x \in Vars |-> IF x = "a" THEN 1 ELSE 2] >>
K(i) == 10 + i
ConstA == 7      \* the top-level constant that the variable a of main shadows
RECURSIVE Run(_, _, _, _, _)
(* ctl: stack of [k, ret (for loops: first body instruction), left] *)
Run(p, i, w, env, ctl) ==
    IF i > Len(p) THEN env
    ELSE LET x == p[i] IN
         CASE x.op \in {"let", "letmut"} -> Run(p, i + 1, w, Bind(env, x.x, K(i)), ctl)
           [] x.op = "asg" -> Run(p, i + 1, w, Assign(env, x.x, K(i)), ctl)
           [] x.op = "cpy" -> Run(p, i + 1, w, Assign(env, x.x, Lookup(env, Other(x.x))), ctl)
           [] x.op = "callc" -> Run(p, i + 1, w, Assign(env, x.x, ConstA), ctl)
           [] x.op = "blk" -> Run(p, i + 1, w, Push(env), Append(ctl, [k |-> "blk", ret |-> 0, left |-> 0]))
           [] x.op = "loop" -> Run(p, i + 1, w, Push(env), Append(ctl, [k |-> "loop", ret |-> i + 1, left |-> 1]))
           [] x.op = "if" -> IF w[x.c] THEN Run(p, i + 1, w, Push(env), Append(ctl, [k |-> "if", ret |-> 0, left |-> 0]))
                             ELSE Run(p, ElseOf(p, i + 1, 0) + 1, w, Push(env), Append(ctl, [k |-> "if", ret |-> 0, left |-> 0]))
           [] x.op = "else" -> Run(p, EndOf(p, i + 1, 0), w, env, ctl)     \* end of the taken then-branch: skip the else branch
           [] x.op = "match" -> LET start == IF w[1] THEN i + 1 ELSE IF w[2] THEN ArmOf(p, i + 1, 0, 1) + 1 ELSE ArmOf(p, i + 1, 0, 2) + 1
                                IN  Run(p, start, w, Push(env), Append(ctl, [k |-> "match", ret |-> 0, left |-> 0]))
           [] x.op = "arm" -> Run(p, EndOf(p, i + 1, 0), w, env, ctl)      \* end of the taken arm: skip the remaining arms
           [] x.op = "and" -> IF w[x.c] THEN Run(p, i + 1, w, Push(env), Append(ctl, [k |-> "and", ret |-> 0, left |-> 0]))
                              ELSE Run(p, EndOf(p, i + 1, 0) + 1, w, env, ctl)
           [] x.op = "end" -> LET t == ctl[Len(ctl)] IN
                              IF t.k = "loop" /\ t.left > 0
                              THEN Run(p, t.ret, w, Push(PopE(env)), [ctl EXCEPT ![Len(ctl)].left = t.left - 1])
                              ELSE Run(p, i + 1, w, PopE(env), SubSeq(ctl, 1, Len(ctl) - 1))
Expected(p) == [w \in Worlds |-> LET e == Run(p, 1, w, Env0, <<>>) IN [x \in Vars |-> e[1][x]]]

(* ---- the machine: the compile scheme; a value is a function World -> Nat ---- *)
VARIABLES prog, phase, pc, env, stack
vars == <<prog, phase, pc, env, stack>>
Const(n) == [w \in Worlds |-> n]
MEnv0 == << [x \in Vars |-> Const(IF x = "a" THEN 1 ELSE 2)] >>
MuxV(c, t, f) == [w \in Worlds |-> IF w[c] THEN t[w] ELSE f[w]]
(* mux_envs: scope by scope, name by name (both environments have the same shape: they are clones of the same env) *)
MuxEnv(c, t, f) == [i \in 1..Len(f) |-> [x \in DOMAIN f[i] |-> MuxV(c, t[i][x], f[i][x])]]
(* mux under a predicate on worlds (the selector wire s = no_prev_match & is_match of a match arm) *)
MuxEnvP(S(_), t, f) == [i \in 1..Len(f) |-> [x \in DOMAIN f[i] |-> [w \in Worlds |-> IF S(w) THEN t[i][x][w] ELSE f[i][x][w]]]]
ArmSel(n, w) == IF n = 1 THEN w[1] ELSE IF n = 2 THEN ~w[1] /\ w[2] ELSE ~w[1] /\ ~w[2]

Init == prog = <<>> /\ phase = "build" /\ pc = 1 /\ env = MEnv0 /\ stack = <<>>
Grow == /\ phase = "build"
        /\ \E x \in Alphabet :
              LET q == Append(prog, x) IN
              /\ Open(q) # Bad
              /\ Len(q) + Need(Open(q)) <= MaxLen
              /\ prog' = q
        /\ UNCHANGED <<phase, pc, env, stack>>
Start == /\ phase = "build" /\ Len(Open(prog)) = 1 /\ Writes(prog)
         /\ phase' = "run"
         /\ UNCHANGED <<prog, pc, env, stack>>
Top == stack[Len(stack)]
PopS == SubSeq(stack, 1, Len(stack) - 1)
Step ==
    /\ phase = "run" /\ pc <= Len(prog)
    /\ UNCHANGED <<prog, phase>>
    /\ LET x == prog[pc] IN
       CASE x.op \in {"let", "letmut"} -> env' = Bind(env, x.x, Const(K(pc))) /\ pc' = pc + 1 /\ UNCHANGED stack
         [] x.op = "asg" -> env' = Assign(env, x.x, Const(K(pc))) /\ pc' = pc + 1 /\ UNCHANGED stack
         [] x.op = "cpy" -> env' = Assign(env, x.x, Lookup(env, Other(x.x))) /\ pc' = pc + 1 /\ UNCHANGED stack
         [] x.op = "callc" ->      \* the callee's environment: the constants (scope 0 of the program) and its parameter
               LET calleeEnv == IF Scheme = "call-sees-caller" THEN Push(env) ELSE << [a |-> Const(ConstA)] >>
               IN  env' = Assign(env, x.x, Lookup(calleeEnv, "a")) /\ pc' = pc + 1 /\ UNCHANGED stack
         [] x.op = "blk" -> env' = Push(env) /\ pc' = pc + 1 /\ stack' = Append(stack, [k |-> "blk", c |-> 0, before |-> env, then |-> env, ret |-> 0, left |-> 0])
         [] x.op = "loop" -> env' = Push(env) /\ pc' = pc + 1 /\ stack' = Append(stack, [k |-> "loop", c |-> 0, before |-> env, then |-> env, ret |-> pc + 1, left |-> 1])
         [] x.op = "if" -> env' = Push(env) /\ pc' = pc + 1 /\ stack' = Append(stack, [k |-> "if", c |-> x.c, before |-> env, then |-> env, ret |-> 0, left |-> 0])
         [] x.op = "else" -> /\ stack' = [stack EXCEPT ![Len(stack)].then = PopE(env)]     \* env_if_true, scope popped
                             /\ env' = Push(Top.before) /\ pc' = pc + 1
         [] x.op = "and" -> env' = Push(env) /\ pc' = pc + 1 /\ stack' = Append(stack, [k |-> "and", c |-> x.c, before |-> env, then |-> env, ret |-> 0, left |-> 0])
         [] x.op = "match" -> env' = Push(env) /\ pc' = pc + 1     \* then = muxed_env (starts as a clone of env), left = number of the arm being compiled
                              /\ stack' = Append(stack, [k |-> "match", c |-> 0, before |-> env, then |-> env, ret |-> 0, left |-> 1])
         [] x.op = "arm" -> LET n == Top.left IN
                            /\ stack' = [stack EXCEPT ![Len(stack)].then = MuxEnvP(LAMBDA w : ArmSel(n, w), PopE(env), Top.then), ![Len(stack)].left = n + 1]
                            /\ env' = Push(Top.before) /\ pc' = pc + 1
         [] x.op = "end" ->
               CASE Top.k = "blk" -> env' = PopE(env) /\ pc' = pc + 1 /\ stack' = PopS
                 [] Top.k = "match" -> env' = MuxEnvP(LAMBDA w : ArmSel(3, w), PopE(env), Top.then) /\ pc' = pc + 1 /\ stack' = PopS
                 [] Top.k = "if" -> env' = MuxEnv(Top.c, Top.then, PopE(env)) /\ pc' = pc + 1 /\ stack' = PopS
                 [] Top.k = "and" -> /\ env' = (IF Scheme = "and-no-mux" THEN PopE(env) ELSE MuxEnv(Top.c, PopE(env), Top.before))
                                     /\ pc' = pc + 1 /\ stack' = PopS
                 [] Top.k = "loop" ->
                       IF Top.left > 0
                       THEN /\ env' = (IF Scheme = "loop-shared" THEN env ELSE Push(PopE(env)))
                            /\ pc' = Top.ret /\ stack' = [stack EXCEPT ![Len(stack)].left = Top.left - 1]
                       ELSE env' = PopE(env) /\ pc' = pc + 1 /\ stack' = PopS
Done == phase = "run" /\ pc > Len(prog)
Next == Grow \/ Start \/ Step \/ (Done /\ UNCHANGED vars)
Spec == Init /\ [][Next]_vars

Observed == [w \in Worlds |-> [x \in Vars |-> env[1][x][w]]]
SchemeRefinesSem == Done => Observed = Expected(prog)
ScopesBalanced == Done => Len(env) = 1 /\ stack = <<>>
Emit == (phase = "run" /\ pc = 1) => PrintT(<<"CASE", ToJson([prog |-> prog, nconds |-> NConds])>>)
=============================================================================
