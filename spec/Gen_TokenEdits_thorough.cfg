SPECIFICATION Spec
CONSTANTS
  MaxTok = 400
  NSubst = 78
INVARIANT Emit
CHECK_DEADLOCK FALSE
