SPECIFICATION Spec
CONSTANTS
  OnlySubst = FALSE
  MaxTok = 400
  NSubst = 78
INVARIANT Emit
CHECK_DEADLOCK FALSE
