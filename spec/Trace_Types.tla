----------------------------- MODULE Trace_Types -----------------------------
(* Trace validation for C17 (and the converse clause of C05).  One event =   *)
(* one program given to the real type checker:                               *)
(*   [id, rule, base, prog, accepted, panic, roundtrip]                      *)
(* prog is the AST the source text was rendered from (a generated           *)
(* well-typed program, or that program after one or two rule-breaking        *)
(* edits).  GarbleTypes.WellTyped decides whether the program is ill-typed:  *)
(*   - a mutant that the specification judges ill-typed must be rejected     *)
(*     with errors: accepted (or a checker panic) is a violation;            *)
(*   - a base program that the specification judges well-typed must be       *)
(*     accepted (C05, converse clause).                                      *)
(* roundtrip = the accepted text parses back to exactly this AST (otherwise  *)
(* the event says nothing about this AST and is only counted).               *)
EXTENDS GarbleTypes, Json, IOUtils
Rec == ndJsonDeserialize(IOEnv.TRACE)
VARIABLE l
vars == <<l>>
Judge(ev) ==
    LET wt == WellTyped(ev.prog)
    IN  IF ~wt /\ ev.panic THEN <<"checker_panics_on_ill_typed_program">>
        ELSE IF ~wt /\ ev.accepted /\ ev.roundtrip THEN <<"ill_typed_program_accepted">>
        ELSE IF wt /\ ~ev.accepted /\ ev.base THEN <<"well_typed_program_rejected">>     \* base: a program that must be accepted if it is well-typed
        ELSE <<>>
Init == l = 1
Next == /\ l <= Len(Rec)
        /\ LET ev == Rec[l]
               wt == WellTyped(ev.prog)
           IN  /\ (~wt => PrintT(<<"ILL", l>>))
               /\ (wt /\ ~ev.accepted => PrintT(<<"WTREJ", l>>))
               /\ LET bad == Judge(ev) IN bad # <<>> => PrintT(<<"MISMATCH", l, ToJson(bad)>>)
        /\ l' = l + 1
Spec == Init /\ [][Next]_vars
AllConsumed == TLCGet("stats").diameter - 1 = Len(Rec)
=============================================================================
