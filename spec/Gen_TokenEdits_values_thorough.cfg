SPECIFICATION Spec
CONSTANTS
  OnlySubst = TRUE
  MaxTok = 400
  NSubst = 12
INVARIANT Emit
CHECK_DEADLOCK FALSE
