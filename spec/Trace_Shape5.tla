---------------------------- MODULE Trace_Shape5 ----------------------------
(* Trace validation for C05: one event per (accepted program, pub fn):       *)
(*   [prog, fn, ptys, ret, single_array, outcome, input_gates, noutputs,     *)
(*    valid_ssa, valid_reg, eval_ok, decode_ok, reg_same_shape,              *)
(*    agrees_with_annotated]                                                 *)
(* agrees_with_annotated: a literal-suffix-erased variant whose typed AST    *)
(* has the shape of the fully annotated program (validated by C01 against    *)
(* GarbleSem) computes the same outputs as that program.                     *)
(* The oracle (Layout.SizeOf over the projected definitions) gives the       *)
(* party sizes and the number of output bits the types demand.               *)
EXTENDS Layout, TLC, Json, IOUtils
Rec == ndJsonDeserialize(IOEnv.TRACE)
VARIABLE l
vars == <<l>>
ExpectedParties(ev) ==
    IF ev.single_array
    THEN [i \in 1..ev.ptys[1].n |-> SizeOf(ev.prog, ev.ptys[1].e)]
    ELSE [i \in 1..Len(ev.ptys) |-> SizeOf(ev.prog, ev.ptys[i])]
Judge(ev) ==
    IF ev.outcome = "compiler_panic" THEN <<"compiler_panic">>
    ELSE IF ev.outcome = "compile_error" THEN <<>>     \* rejected with an error instead: allowed
    ELSE (IF ev.input_gates = ExpectedParties(ev) THEN <<>> ELSE <<"wrong_party_sizes">>)
         \o (IF ev.noutputs = PANIC_BITS + SizeOf(ev.prog, ev.ret) THEN <<>> ELSE <<"wrong_output_count">>)
         \o (IF ev.valid_ssa /\ ev.valid_reg THEN <<>> ELSE <<"invalid_circuit">>)
         \o (IF ev.eval_ok THEN <<>> ELSE <<"eval_fails">>)
         \o (IF ev.decode_ok THEN <<>> ELSE <<"output_not_decodable">>)
         \o (IF ev.reg_same_shape THEN <<>> ELSE <<"register_form_differs_in_shape">>)
         \o (IF ev.agrees_with_annotated THEN <<>> ELSE <<"differs_from_annotated_program">>)
Init == l = 1
Next == /\ l <= Len(Rec)
        /\ LET bad == Judge(Rec[l]) IN bad # <<>> => PrintT(<<"MISMATCH", l, ToJson(bad)>>)
        /\ l' = l + 1
Spec == Init /\ [][Next]_vars
AllConsumed == TLCGet("stats").diameter - 1 = Len(Rec)
=============================================================================
