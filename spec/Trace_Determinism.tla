------------------------- MODULE Trace_Determinism -------------------------
(* C06: compilation is a function of (source, constants, options).  The     *)
(* trace is a sequence of compilations [key, run, digest] recorded from the *)
(* real compiler (repeated in one process - every HashMap instance gets a   *)
(* different hash seed - and across processes).  The trace machine          *)
(* remembers the first digest seen for every key and rejects any later      *)
(* compilation of the same key with a different digest or a different       *)
(* success / panic outcome.                                                 *)
EXTENDS Naturals, Sequences, TLC, Json, IOUtils
Rec == ndJsonDeserialize(IOEnv.TRACE)
VARIABLES l, seen
vars == <<l, seen>>
Init == l = 1 /\ seen = <<>>      \* function key -> digest
Next == /\ l <= Len(Rec)
        /\ LET ev == Rec[l]
           IN  IF ev.key \in DOMAIN seen
               THEN /\ (seen[ev.key] # ev.digest =>
                          PrintT(<<"MISMATCH", l, ToJson([key |-> ev.key, first |-> seen[ev.key], now |-> ev.digest])>>))
                    /\ UNCHANGED seen
               ELSE seen' = (ev.key :> ev.digest) @@ seen
        /\ l' = l + 1
Spec == Init /\ [][Next]_vars
AllConsumed == TLCGet("stats").diameter - 1 = Len(Rec)
=============================================================================
