------------------------------ MODULE Builder ------------------------------
(* Design layer for C04 / C15: the gate builder of circuit.rs as an         *)
(* explicit state machine.  One action per request the compiler can make   *)
(* (xor / and and the macro requests not / or / eq / mux / adder), every   *)
(* rewrite rule of optimize_xor / push_xor / optimize_and / push_and        *)
(* transcribed in the order the code tries them, and Build = pruning of     *)
(* unused gates + the final renumbering.                                    *)
(*                                                                          *)
(* Wires: 0 = constant false, 1 = constant true, 2..NumIn+1 = input bits,   *)
(* NumIn+2.. = gates in push order.  The compiler can only name wires that  *)
(* were handed back to it (constants, inputs, earlier responses).           *)
(*                                                                          *)
(* Oracle: the meaning of a wire is the set of input assignments on which   *)
(* it is true (xor = symmetric difference, and = intersection).             *)
EXTENDS Naturals, Integers, Sequences, FiniteSets, SequencesExt, Folds, TLC, Json

CONSTANTS NumIn,        \* number of input bits
          CacheGates,   \* optimize_duplicate_gates
          MaxReq,       \* bound on the number of requests
          History,      \* TRUE: keep the request history (needed to emit replay cases)
          Macros        \* set of macro request names enabled, subset of {"not","or","eq","mux","adder"}

VARIABLES st,      \* [gates, cache, neg]
          handed,  \* set of wires handed back to the compiler
          reqs,    \* request history (only if History)
          resp     \* last request and its response(s)

vars == <<st, handed, reqs, resp>>

None == -1
Shift == NumIn + 2
Inputs == 2..(NumIn + 1)

-----------------------------------------------------------------------------
(* Oracle: semantics of wires *)
AllAssign == SUBSET (0..(NumIn - 1))
SDiff(a, b) == (a \ b) \cup (b \ a)
BaseSem == <<{}, AllAssign>> \o [i \in 1..NumIn |-> {a \in AllAssign : (i - 1) \in a}]
(* sequence of meanings, index = wire + 1 *)
SemAll(gates) ==
    FoldLeft(LAMBDA acc, g :
                Append(acc, IF g[1] = "X" THEN SDiff(acc[g[2] + 1], acc[g[3] + 1])
                            ELSE acc[g[2] + 1] \cap acc[g[3] + 1]),
             BaseSem, gates)
Sem(s, w) == SemAll(s.gates)[w + 1]

-----------------------------------------------------------------------------
(* Builder internals, transcribed *)
GateAt(s, w) == s.gates[w - Shift + 1]
NegOf(s, w) == IF w \in DOMAIN s.neg THEN s.neg[w] ELSE None

GetCached(s, op, x, y) ==
    IF ~CacheGates THEN None
    ELSE IF <<op, x, y>> \in DOMAIN s.cache THEN s.cache[<<op, x, y>>]
    ELSE IF <<op, y, x>> \in DOMAIN s.cache THEN s.cache[<<op, y, x>>]
    ELSE None

PushGate(s, g) ==
    LET w == Shift + Len(s.gates)
    IN  <<[s EXCEPT !.gates = Append(@, g),
                    !.cache = IF CacheGates THEN (g :> w) @@ @ ELSE @], w>>

OptXor(s, x, y) ==
    IF x = 0 THEN y
    ELSE IF y = 0 THEN x
    ELSE IF x = y THEN 0
    ELSE IF NegOf(s, x) # None
         THEN (IF NegOf(s, x) = y THEN 1
               ELSE IF y = 1 THEN NegOf(s, x)
               ELSE GetCached(s, "X", x, y))
    ELSE IF NegOf(s, y) # None
         THEN (IF NegOf(s, y) = x THEN 1
               ELSE IF x = 1 THEN NegOf(s, y)
               ELSE GetCached(s, "X", x, y))
    ELSE GetCached(s, "X", x, y)

OptAnd(s, x, y) ==
    IF x = 0 \/ y = 0 THEN 0
    ELSE IF x = 1 THEN y
    ELSE IF y = 1 \/ x = y THEN x
    ELSE IF NegOf(s, x) # None
         THEN (IF NegOf(s, x) = y THEN 0 ELSE GetCached(s, "A", x, y))
    ELSE IF NegOf(s, y) # None
         THEN (IF NegOf(s, y) = x THEN 0 ELSE GetCached(s, "A", x, y))
    ELSE GetCached(s, "A", x, y)

(* the four operand pairings tried by the distributivity rewrite *)
Pairings(x1, x2, y1, y2) ==
    << <<x1, x2, y1, y2>>, <<x1, x2, y2, y1>>, <<x2, x1, y1, y2>>, <<x2, x1, y2, y1>> >>

(* A result is <<state, wire>>; NoRet means "this block did not return". *)
NoRet == <<>>

RECURSIVE PushXor(_, _, _), PushAnd(_, _, _)

XorBlockBoth(s, x, y) ==
    IF ~(x >= Shift /\ y >= Shift) THEN NoRet
    ELSE LET gx == GateAt(s, x)  gy == GateAt(s, y)
             x1 == gx[2]  x2 == gx[3]  y1 == gy[2]  y2 == gy[3]
         IN  IF gx[1] = "X" /\ gy[1] = "X"
             THEN (IF x1 = y1 THEN PushXor(s, x2, y2)
                   ELSE IF x1 = y2 THEN PushXor(s, x2, y1)
                   ELSE IF x2 = y1 THEN PushXor(s, x1, y2)
                   ELSE IF x2 = y2 THEN PushXor(s, x1, y1)
                   ELSE NoRet)
             ELSE IF gx[1] = "A" /\ gy[1] = "A"
             THEN LET ps == Pairings(x1, x2, y1, y2)
                      (* first loop: both gates of a1 & (a2 ^ b2) already exist *)
                      Hit(p) == /\ p[1] = p[3]
                                /\ GetCached(s, "X", p[2], p[4]) # None
                                /\ GetCached(s, "A", p[1], GetCached(s, "X", p[2], p[4])) # None
                      hits == {i \in 1..4 : Hit(ps[i])}
                      (* second loop: push two fresh gates *)
                      eqs == {i \in 1..4 : ps[i][1] = ps[i][3]}
                  IN  IF hits # {}
                      THEN LET p == ps[CHOOSE i \in hits : \A j \in hits : i <= j]
                           IN  <<s, GetCached(s, "A", p[1], GetCached(s, "X", p[2], p[4]))>>
                      ELSE IF eqs # {}
                      THEN LET p == ps[CHOOSE i \in eqs : \A j \in eqs : i <= j]
                               r1 == PushGate(s, <<"X", p[2], p[4]>>)
                           IN  PushGate(r1[1], <<"A", p[1], r1[2]>>)
                      ELSE NoRet
             ELSE NoRet

XorBlockX(s, x, y) ==
    IF ~(x >= Shift) THEN NoRet
    ELSE LET gx == GateAt(s, x)  x1 == gx[2]  x2 == gx[3]
         IN  IF gx[1] # "X" THEN NoRet
             ELSE IF x1 = y THEN <<s, x2>>
             ELSE IF x2 = y THEN <<s, x1>>
             ELSE IF NegOf(s, y) # None
                  THEN (IF x1 = NegOf(s, y) THEN PushXor(s, x2, 1)
                        ELSE IF x2 = NegOf(s, y) THEN PushXor(s, x1, 1)
                        ELSE NoRet)
             ELSE NoRet

XorBlockY(s, x, y) ==
    IF ~(y >= Shift) THEN NoRet
    ELSE LET gy == GateAt(s, y)  y1 == gy[2]  y2 == gy[3]
         IN  IF gy[1] # "X" THEN NoRet
             ELSE IF x = y1 THEN <<s, y2>>
             ELSE IF x = y2 THEN <<s, y1>>
             ELSE IF NegOf(s, x) # None
                  THEN (IF NegOf(s, x) = y1 THEN PushXor(s, 1, y2)
                        ELSE IF NegOf(s, x) = y2 THEN PushXor(s, 1, y1)
                        ELSE NoRet)
             ELSE NoRet

XorFinal(s, x, y) ==
    LET r == PushGate(s, <<"X", x, y>>)
        w == r[2]
        n1 == IF x = 1 THEN (y :> w) @@ (w :> y) @@ r[1].neg ELSE r[1].neg
        n2 == IF y = 1 THEN (x :> w) @@ (w :> x) @@ n1 ELSE n1
    IN  <<[r[1] EXCEPT !.neg = n2], w>>

PushXor(s, x, y) ==
    IF OptXor(s, x, y) # None THEN <<s, OptXor(s, x, y)>>
    ELSE LET b1 == XorBlockBoth(s, x, y)
         IN  IF b1 # NoRet THEN b1
             ELSE LET b2 == XorBlockX(s, x, y)
                  IN  IF b2 # NoRet THEN b2
                      ELSE LET b3 == XorBlockY(s, x, y)
                           IN  IF b3 # NoRet THEN b3 ELSE XorFinal(s, x, y)

AndBlockBoth(s, x, y) ==
    IF ~(x >= Shift /\ y >= Shift) THEN NoRet
    ELSE LET gx == GateAt(s, x)  gy == GateAt(s, y)
             x1 == gx[2]  x2 == gx[3]  y1 == gy[2]  y2 == gy[3]
         IN  IF gx[1] = "A" /\ gy[1] = "A"
             THEN (IF x1 = y1 \/ x2 = y1 THEN PushAnd(s, x, y2)
                   ELSE IF x1 = y2 \/ x2 = y2 THEN PushAnd(s, x, y1)
                   ELSE NoRet)
             ELSE NoRet

AndBlockX(s, x, y) ==
    IF ~(x >= Shift) THEN NoRet
    ELSE LET gx == GateAt(s, x)  x1 == gx[2]  x2 == gx[3]
         IN  IF gx[1] = "A"
             THEN (IF x1 = y \/ x2 = y THEN <<s, x>>
                   ELSE IF NegOf(s, y) # None /\ (x1 = NegOf(s, y) \/ x2 = NegOf(s, y))
                        THEN <<s, 0>>
                   ELSE NoRet)
             ELSE LET p == GetCached(s, "A", x1, y)  q == GetCached(s, "A", x2, y)
                  IN  IF p # None /\ q # None THEN PushXor(s, p, q) ELSE NoRet

AndBlockY(s, x, y) ==
    IF ~(y >= Shift) THEN NoRet
    ELSE LET gy == GateAt(s, y)  y1 == gy[2]  y2 == gy[3]
         IN  IF gy[1] = "A"
             THEN (IF x = y1 \/ x = y2 THEN <<s, y>>
                   ELSE IF NegOf(s, x) # None /\ (NegOf(s, x) = y1 \/ NegOf(s, x) = y2)
                        THEN <<s, 0>>
                   ELSE NoRet)
             ELSE LET p == GetCached(s, "A", x, y1)  q == GetCached(s, "A", x, y2)
                  IN  IF p # None /\ q # None THEN PushXor(s, p, q) ELSE NoRet

PushAnd(s, x, y) ==
    IF OptAnd(s, x, y) # None THEN <<s, OptAnd(s, x, y)>>
    ELSE LET b1 == AndBlockBoth(s, x, y)
         IN  IF b1 # NoRet THEN b1
             ELSE LET b2 == AndBlockX(s, x, y)
                  IN  IF b2 # NoRet THEN b2
                      ELSE LET b3 == AndBlockY(s, x, y)
                           IN  IF b3 # NoRet THEN b3 ELSE PushGate(s, <<"A", x, y>>)

(* macro requests, composed exactly as circuit.rs composes them *)
PushNot(s, x) == PushXor(s, x, 1)
PushOr(s, x, y) ==
    LET r1 == PushXor(s, x, y)
        r2 == PushAnd(r1[1], x, y)
    IN  PushXor(r2[1], r1[2], r2[2])
PushEq(s, x, y) ==
    LET r1 == PushXor(s, x, y) IN PushXor(r1[1], r1[2], 1)
PushMux(s, sel, x0, x1) ==
    IF x0 = x1 THEN <<s, x0>>
    ELSE LET r1 == PushXor(s, x0, x1)
             r2 == PushNot(r1[1], sel)
             r3 == PushAnd(r2[1], r1[2], r2[2])
         IN  PushXor(r3[1], x0, r3[2])
(* returns <<state, sum, carry>> *)
PushAdder(s, x, y, c) ==
    LET u == PushXor(s, x, y)
        v == PushAnd(u[1], x, y)
        sm == PushXor(v[1], u[2], c)
        w == PushAnd(sm[1], u[2], c)
        cy == PushOr(w[1], v[2], w[2])
    IN  <<cy[1], sm[2], cy[2]>>

-----------------------------------------------------------------------------
(* The state machine *)

EmptySt == [gates |-> <<>>, cache |-> <<>>, neg |-> <<>>]

Init == /\ st = EmptySt
        /\ handed = {0, 1} \cup Inputs
        /\ reqs = <<>>
        /\ resp = [op |-> "-", args |-> <<>>, ws |-> <<>>]

NReq == IF History THEN Len(reqs) ELSE 0

Record(op, args, ws) ==
    /\ resp' = [op |-> op, args |-> args, ws |-> ws]
    /\ reqs' = IF History THEN Append(reqs, [op |-> op, args |-> args, ws |-> ws]) ELSE reqs
    /\ handed' = handed \cup {ws[i] : i \in 1..Len(ws)}

CanReq == IF History THEN Len(reqs) < MaxReq
          ELSE Cardinality(handed) < NumIn + 2 + MaxReq /\ Len(st.gates) < 4 * MaxReq

ReqXor == /\ CanReq
          /\ \E x, y \in handed :
               LET r == PushXor(st, x, y) IN st' = r[1] /\ Record("xor", <<x, y>>, <<r[2]>>)
ReqAnd == /\ CanReq
          /\ \E x, y \in handed :
               LET r == PushAnd(st, x, y) IN st' = r[1] /\ Record("and", <<x, y>>, <<r[2]>>)
ReqNot == /\ CanReq /\ "not" \in Macros
          /\ \E x \in handed :
               LET r == PushNot(st, x) IN st' = r[1] /\ Record("not", <<x>>, <<r[2]>>)
ReqOr ==  /\ CanReq /\ "or" \in Macros
          /\ \E x, y \in handed :
               LET r == PushOr(st, x, y) IN st' = r[1] /\ Record("or", <<x, y>>, <<r[2]>>)
ReqEq ==  /\ CanReq /\ "eq" \in Macros
          /\ \E x, y \in handed :
               LET r == PushEq(st, x, y) IN st' = r[1] /\ Record("eq", <<x, y>>, <<r[2]>>)
ReqMux == /\ CanReq /\ "mux" \in Macros
          /\ \E s, x, y \in handed :
               LET r == PushMux(st, s, x, y) IN st' = r[1] /\ Record("mux", <<s, x, y>>, <<r[2]>>)
ReqAdder == /\ CanReq /\ "adder" \in Macros
            /\ \E x, y, c \in handed :
               LET r == PushAdder(st, x, y, c) IN st' = r[1] /\ Record("adder", <<x, y, c>>, <<r[2], r[3]>>)

Next == ReqXor \/ ReqAnd \/ ReqNot \/ ReqOr \/ ReqEq \/ ReqMux \/ ReqAdder

Spec == Init /\ [][Next]_vars

-----------------------------------------------------------------------------
(* Properties *)

(* literal meaning of a request, from the meanings of its operands *)
Literal(op, m) ==
    IF op = "xor" THEN <<SDiff(m[1], m[2])>>
    ELSE IF op = "and" THEN <<m[1] \cap m[2]>>
    ELSE IF op = "not" THEN <<AllAssign \ m[1]>>
    ELSE IF op = "or" THEN <<m[1] \cup m[2]>>
    ELSE IF op = "eq" THEN <<AllAssign \ SDiff(m[1], m[2])>>
    ELSE IF op = "mux" THEN <<(m[1] \cap m[2]) \cup (m[3] \ m[1])>>
    ELSE (* adder *)
         << SDiff(SDiff(m[1], m[2]), m[3]),
            (m[1] \cap m[2]) \cup (m[1] \cap m[3]) \cup (m[2] \cap m[3]) >>

(* C04: every wire handed back computes what the literal request computes *)
ResponseSound ==
    resp.op # "-" =>
        LET sem == SemAll(st.gates)
            m == [i \in 1..Len(resp.args) |-> sem[resp.args[i] + 1]]
            lit == Literal(resp.op, m)
        IN  \A i \in 1..Len(resp.ws) : sem[resp.ws[i] + 1] = lit[i]

(* gates are only ever appended: meanings of existing wires never change *)
AppendOnly == [][Len(st'.gates) >= Len(st.gates)
                 /\ SubSeq(st'.gates, 1, Len(st.gates)) = st.gates]_vars

(* structural sanity: gates refer to earlier wires only *)
GatesWellFormed ==
    \A i \in 1..Len(st.gates) :
        st.gates[i][2] < Shift + i - 1 /\ st.gates[i][3] < Shift + i - 1

-----------------------------------------------------------------------------
(* Build: remove_unused_gates + renumbering, as a function of the state and *)
(* the requested output wires.  Result in the SSA format of CircuitSem      *)
(* (without the 161 constant panic outputs the real build() prepends when   *)
(* no panic was recorded).                                                  *)

RECURSIVE Mark(_, _, _)
Mark(s, stack, used) ==
    IF stack = {} THEN used
    ELSE LET w == CHOOSE v \in stack : TRUE
         IN  IF w >= Shift /\ w \notin used
             THEN LET g == GateAt(s, w)
                  IN  Mark(s, (stack \ {w}) \cup ({g[2], g[3]} \ used), used \cup {w})
             ELSE Mark(s, stack \ {w}, used)

BuildModel(s, outs) ==
    LET used == Mark(s, {outs[i] : i \in 1..Len(outs)}, {})
        n == Len(s.gates)
        UnusedBefore(w) == Cardinality({v \in Shift..w : v \notin used})
        Ren(w) == IF w > Shift THEN w - UnusedBefore(w) ELSE w      \* after pruning
        inShift == Shift - 2
        Fin(i) == IF i <= 1 THEN i + inShift ELSE IF i < inShift + 2 THEN i - 2 ELSE i
        kept == SelectSeq([k \in 1..n |-> Shift + k - 1], LAMBDA w : w \in used)
        G(w) == LET g == GateAt(s, w)  x == Ren(g[2])  y == Ren(g[3])
                IN  IF g[1] = "X"
                    THEN (IF x = 1 THEN [op |-> "not", a |-> Fin(y), b |-> Fin(y)]
                          ELSE IF y = 1 THEN [op |-> "not", a |-> Fin(x), b |-> Fin(x)]
                          ELSE [op |-> "xor", a |-> Fin(x), b |-> Fin(y)])
                    ELSE [op |-> "and", a |-> Fin(x), b |-> Fin(y)]
    IN  [inputs |-> <<NumIn>>,
         gates |-> << [op |-> "xor", a |-> 0, b |-> 0], [op |-> "not", a |-> inShift, b |-> inShift] >>
                   \o [k \in 1..Len(kept) |-> G(kept[k])],
         outputs |-> [i \in 1..Len(outs) |-> Fin(Ren(outs[i]))]]
=============================================================================
