------------------------------ MODULE Validate ------------------------------
(* Design layer for C16: the two `validate` functions of the implementation *)
(* (circuit.rs, register_circuit.rs) transcribed as functions that return   *)
(* "ok", "err" or "panic", and the statement they are meant to establish:   *)
(*     validate = "ok"  =>  evaluation is safe  (CircuitSem.*EvalSafe)      *)
EXTENDS CircuitSem

(* ---- SSA ---- *)
SsaValidateModel(c) ==
    IF c.inputs = <<>> THEN "err"      \* is_empty() && all(==0)
    ELSE IF \E i \in 1..Len(c.gates) :
              \E r \in GateRefs(c.gates[i]) : r >= NumInputs(c) + i - 1 THEN "err"
    ELSE IF c.outputs = <<>> THEN "err"
    ELSE IF \E i \in 1..Len(c.outputs) : c.outputs[i] >= NumWires(c) THEN "err"
    ELSE "ok"

(* the oracle: evaluation on inputs of the declared shape is safe *)
SsaSafe(c) == SsaEvalSafe(c)

(* ---- register ---- *)
(* sequential scan of the instruction list as the implementation does it;   *)
(* st = [set |-> written registers, res |-> "run" | "err" | "panic"]        *)
RegValStep(rc, st, i) ==
    LET inst == rc.insts[i]
        R == rc.max_reg_count
        maxReg == IF R = 0 THEN 0 ELSE R - 1
        reads == IF inst.op = "not" THEN <<inst.a>>
                 ELSE IF inst.op = "input" THEN <<>> ELSE <<inst.a, inst.b>>
    IN  IF st.res # "run" THEN st
        ELSE IF inst.out > maxReg THEN [st EXCEPT !.res = "err"]
        ELSE IF inst.op = "input" /\ inst.out # i - 1 THEN [st EXCEPT !.res = "err"]
        ELSE IF inst.op = "input"
                /\ (inst.a >= Len(rc.input_regs) \/ inst.b >= rc.input_regs[inst.a + 1])
             THEN [st EXCEPT !.res = "err"]
        ELSE IF \E k \in 1..Len(reads) : reads[k] > maxReg THEN [st EXCEPT !.res = "err"]
        ELSE IF R = 0 THEN [st EXCEPT !.res = "err"]
        ELSE IF \E k \in 1..Len(reads) : reads[k] \notin st.set THEN [st EXCEPT !.res = "err"]
        ELSE [st EXCEPT !.set = @ \cup {inst.out}]

RegValidateModel(rc) ==
    LET R == rc.max_reg_count
        maxReg == IF R = 0 THEN 0 ELSE R - 1
    IN  IF \A i \in 1..Len(rc.input_regs) : rc.input_regs[i] = 0 THEN "err"
        ELSE IF rc.output_regs = <<>> THEN "err"
        ELSE IF \E i \in 1..Len(rc.output_regs) : rc.output_regs[i] > maxReg THEN "err"
        ELSE LET fin == FoldLeft(LAMBDA st, i : RegValStep(rc, st, i),
                                 [set |-> {}, res |-> "run"],
                                 [i \in 1..Len(rc.insts) |-> i])
             IN  IF fin.res = "run"
                 THEN IF \A i \in 1..Len(rc.output_regs) : rc.output_regs[i] \in fin.set
                      THEN "ok" ELSE "err"
                 ELSE fin.res

(* the oracle: safe on one (hence every: safety does not depend on the      *)
(* input values) input of the declared shape                              *)
ZeroParties(rc) == [p \in 1..Len(rc.input_regs) |-> [i \in 1..rc.input_regs[p] |-> 0]]
RegSafe(rc) == /\ RegEvalSafeOn(rc, ZeroParties(rc))
               /\ RegOutputsDefinedOn(rc, ZeroParties(rc))
=============================================================================
