SPECIFICATION Spec
CONSTANTS
  Mode = "sort01"
  MaxLen = 10
  MaxN = 1
  KeyMax = 1
INVARIANT NetworkSorts
INVARIANT Emit
CHECK_DEADLOCK FALSE
