SPECIFICATION Spec
CONSTANTS
  Kind = "reg"
  Shapes <- ShapesT
  RegCounts <- RegCountsT
  MaxElems = 2
  RefMax = 3
  MaxOutputs = 1
INVARIANT ValidImpliesSafe
INVARIANT ModelTotal
INVARIANT Emit
CHECK_DEADLOCK FALSE
