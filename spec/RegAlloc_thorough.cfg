SPECIFICATION Spec
CONSTANTS
  PartyShapes <- ShapesThorough
  MaxGates = 3
  MaxOutputs = 2
INVARIANT Emit
CHECK_DEADLOCK FALSE
