------------------------------ MODULE Gen_Arms ------------------------------
(* Generator for C08 (spec -> implementation): a state machine that builds  *)
(* match arm lists one arm at a time over a scrutinee type, from pattern    *)
(* pools whose end points sit on the boundaries (MIN, MAX, 0 and their      *)
(* neighbours; adjacent and overlapping ranges).  Every arm list is emitted *)
(* with the oracle's verdict (Patterns.Exhaustive) and, per scrutinee       *)
(* value, the arm that must decide.                                         *)
EXTENDS Patterns, TLC, Json, SequencesExt

CONSTANTS TypeSet,   \* name of the set of scrutinee types to explore
          MaxArms,
          Pool       \* "full" | "small"

VARIABLES ty, arms
vars == <<ty, arms>>

TBool == [k |-> "bool"]
TInt(t) == [k |-> "int", t |-> t]
TPair == [k |-> "tup", fs |-> <<TBool, TInt("u8")>>]
TPair2 == [k |-> "tup", fs |-> <<TInt("u8"), TInt("u8")>>]
TEnum == [k |-> "enum", name |-> "E3",
          vs |-> << [n |-> "A", fs |-> <<>>], [n |-> "B", fs |-> <<TInt("u8")>>], [n |-> "C", fs |-> <<TBool>>] >>]
TStruct == [k |-> "struct", name |-> "S", fs |-> << [n |-> "a", t |-> TInt("u8")], [n |-> "b", t |-> TBool] >>]

Types == CASE TypeSet = "narrow" -> {TInt("u8"), TInt("i8"), TBool}
           [] TypeSet = "wide" -> {TInt("u16"), TInt("i16"), TInt("i32"), TInt("u64"), TInt("i64")}
           [] TypeSet = "compound" -> {TPair, TEnum, TStruct}
           [] TypeSet = "pair2" -> {TPair2}

(* end points of the integer patterns, as point indices *)
EndPoints(T) ==
    IF T.t = "u8" THEN (IF Pool = "full" THEN {P8("u8", v) : v \in {0, 1, 2, 127, 128, 254, 255}} ELSE {P8("u8", v) : v \in {0, 128, 255}})
    ELSE IF T.t = "i8" THEN (IF Pool = "full" THEN {P8("i8", v) : v \in {-128, -127, -1, 0, 1, 126, 127}} ELSE {P8("i8", v) : v \in {-128, 0, 127}})
    ELSE IF IsSignedT(T.t) THEN (IF Pool = "full" THEN {1, 2, 6, 7, 8, 12, 13} ELSE {1, 7, 13})
    ELSE (IF Pool = "full" THEN {1, 2, 3, 8, 9} ELSE {1, 2, 9})

BoolPatterns == {[k |-> "wild"], [k |-> "true"], [k |-> "false"]}
(* (written out: pairs i < j) *)
IntRanges(T) ==
    LET E == EndPoints(T)
        pairs == {pr \in E \X E : pr[1] < pr[2]}
    IN  {[k |-> "incl", i |-> pr[1], j |-> pr[2]] : pr \in pairs}
        \cup {[k |-> "excl", i |-> pr[1], j |-> pr[2]] : pr \in pairs}
IntPool(T) == {[k |-> "wild"], [k |-> "bind"]} \cup {[k |-> "lit", i |-> i] : i \in EndPoints(T)} \cup IntRanges(T)

SubU8 == {[k |-> "wild"], [k |-> "lit", i |-> 1], [k |-> "lit", i |-> 256], [k |-> "bind"],
          [k |-> "incl", i |-> 1, j |-> 128], [k |-> "incl", i |-> 129, j |-> 256], [k |-> "excl", i |-> 2, j |-> 256]}

PoolOf(T) ==
    CASE T.k = "bool" -> BoolPatterns
      [] T.k = "int" -> IntPool(T)
      [] T = TPair -> {[k |-> "wild"]} \cup {[k |-> "tup", ps |-> <<b, u>>] : b \in BoolPatterns, u \in SubU8}
      [] T = TPair2 -> {[k |-> "wild"]} \cup {[k |-> "tup", ps |-> <<a, b>>] : a \in SubU8, b \in SubU8}
      [] T = TEnum -> {[k |-> "wild"], [k |-> "enum", v |-> 1, ps |-> <<>>]}
                      \cup {[k |-> "enum", v |-> 2, ps |-> <<u>>] : u \in SubU8}
                      \cup {[k |-> "enum", v |-> 3, ps |-> <<b>>] : b \in BoolPatterns}
      [] T = TStruct -> {[k |-> "wild"]}
                        \cup {[k |-> "struct", fs |-> <<[f |-> 1, p |-> u], [f |-> 2, p |-> b]>>, rest |-> FALSE] : u \in SubU8, b \in BoolPatterns}
                        \cup {[k |-> "struct", fs |-> <<[f |-> 1, p |-> u]>>, rest |-> TRUE] : u \in SubU8 \ {[k |-> "wild"]}}
                        \cup {[k |-> "struct", fs |-> <<[f |-> 2, p |-> b]>>, rest |-> TRUE] : b \in BoolPatterns \ {[k |-> "wild"]}}

Init == ty \in Types /\ arms = <<>>
AddArm == /\ Len(arms) < MaxArms
          /\ \E p \in PoolOf(ty) : arms' = Append(arms, p)
          /\ UNCHANGED ty
Next == AddArm
Spec == Init /\ [][Next]_vars

ValueList == IF ty.k \in {"bool", "int"} THEN <<>> ELSE SetToSeq(Values(ty))
Case ==
    LET vl == ValueList
    IN  [ty |-> ty, arms |-> arms, exhaustive |-> Exhaustive(ty, arms),
         vals |-> vl,
         first |-> IF ty.k \in {"bool", "int"} THEN [v \in 1..NPoints(ty) |-> FirstMatch(ty, arms, v)]
                   ELSE [i \in 1..Len(vl) |-> FirstMatch(ty, arms, vl[i])]]
Emit == arms # <<>> => PrintT(<<"CASE", ToJson(Case)>>)
(* oracle self-consistency: a list ending in a wildcard is exhaustive; a list is exhaustive  *)
(* iff every value has a deciding arm                                                       *)
OracleSane == arms # <<>> =>
    /\ (arms[Len(arms)].k = "wild" => Exhaustive(ty, arms))
    /\ (Exhaustive(ty, arms) <=> \A v \in Values(ty) : \E i \in 1..Len(arms) : Matches(ty, arms[i], v))
=============================================================================
