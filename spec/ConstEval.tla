------------------------------ MODULE ConstEval ------------------------------
(* Oracle layer for C12: the value of a top-level constant.                  *)
(* A declaration is [n |-> name, t |-> type name, e |-> expr]; an expression *)
(* is [k |-> "lit", v] | [k |-> "ext", party, id] | [k |-> "ref", n] |       *)
(* [k |-> "max"|"min", args] | [k |-> "add"|"sub", l, r].  Every             *)
(* sub-expression is evaluated in wrapping arithmetic of the declared type   *)
(* of the constant ("arithmetic operations on constants are defined to       *)
(* wrap").  ext maps <<party, id>> to the supplied value; earlier maps the   *)
(* names of the constants declared before to their values.                   *)
EXTENDS IntOps, Sequences, FiniteSets, TLC

(* usize values stay small in the generated cases (no wrap is ever needed there) *)
W(t, v) == IF t \in {"bool", "usize"} THEN v ELSE Wrap(t, v)

RECURSIVE CVal(_, _, _, _), FoldArgs(_, _, _, _, _, _)
CVal(t, e, ext, earlier) ==
    CASE e.k = "lit" -> W(t, e.v)
      [] e.k = "ext" -> W(t, ext[<<e.party, e.id>>])
      [] e.k = "ref" -> W(t, earlier[e.n])
      [] e.k = "add" -> W(t, CVal(t, e.l, ext, earlier) + CVal(t, e.r, ext, earlier))
      [] e.k = "sub" -> W(t, CVal(t, e.l, ext, earlier) - CVal(t, e.r, ext, earlier))
      [] e.k \in {"max", "min"} -> FoldArgs(t, e.k, e.args, 2, CVal(t, e.args[1], ext, earlier), <<ext, earlier>>)
FoldArgs(t, k, args, i, acc, envs) ==
    IF i > Len(args) THEN acc
    ELSE LET v == CVal(t, args[i], envs[1], envs[2])
         IN  FoldArgs(t, k, args, i + 1, IF k = "max" THEN (IF v > acc THEN v ELSE acc) ELSE (IF v < acc THEN v ELSE acc), envs)

(* values of a list of declarations, in textual order: name -> value *)
RECURSIVE ConstVals(_, _, _, _)
ConstVals(decls, i, ext, acc) ==
    IF i > Len(decls) THEN acc
    ELSE ConstVals(decls, i + 1, ext, (decls[i].n :> CVal(decls[i].t, decls[i].e, ext, acc)) @@ acc)

(* the external constants an expression depends on *)
RECURSIVE Deps(_)
Deps(e) ==
    CASE e.k = "ext" -> {<<e.party, e.id>>}
      [] e.k \in {"lit", "ref"} -> {}
      [] e.k \in {"add", "sub"} -> Deps(e.l) \cup Deps(e.r)
      [] e.k \in {"max", "min"} -> UNION {Deps(e.args[i]) : i \in 1..Len(e.args)}
=============================================================================
