SPECIFICATION Spec
CONSTANTS
  Site = "cache_merge"
  Keys = {1, 2, 3, 4}
INVARIANT OrderIndependence
CHECK_DEADLOCK FALSE
