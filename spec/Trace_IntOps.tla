---------------------------- MODULE Trace_IntOps ----------------------------
(* Trace validation for C03 on the wide types (16/32/64 bits, usize): each  *)
(* event is one evaluation of a compiled operator program, operands and      *)
(* result as bit vectors in the circuit layout.  The oracle works on limbs   *)
(* (Num.tla): sums and products are computed exactly, division is checked    *)
(* relationally (the implementation supplies quotient and remainder, the     *)
(* spec multiplies back and compares), shifts / bitwise / casts are defined  *)
(* on the bit vectors.                                                       *)
EXTENDS Num, TLC, Json, IOUtils

Rec == ndJsonDeserialize(IOEnv.TRACE)
VARIABLE l
vars == <<l>>

NONE == 0  OVERFLOW == 1  DIVZERO == 2      \* ev.panic codes

Signed(ty) == ty \in {"i8", "i16", "i32", "i64"}
Msb(bits) == bits[1]
(* sign and magnitude of a value of type ty given as bits *)
IsNeg(ty, bits) == Signed(ty) /\ Msb(bits) = 1
Mag(ty, bits) == IF IsNeg(ty, bits) THEN NegMod(BitsToLimbs(bits)) ELSE BitsToLimbs(bits)
(* bits of the value with the given sign and magnitude (n limbs), assuming representable *)
FromSignMag(neg, mag) == LimbsToBits(IF neg THEN NegMod(mag) ELSE mag)
(* representable in ty (n limbs)? mag is a limb sequence possibly longer than n *)
Representable(ty, neg, mag, n) ==
    /\ \A k \in (n + 1)..Len(mag) : mag[k] = 0
    /\ LET m == Fit(mag, n)
       IN  IF ~Signed(ty) THEN (~neg \/ IsZero(m))
           ELSE IF neg THEN Cmp(m, MinMag(n)) <= 0
           ELSE Cmp(m, MinMag(n)) < 0

(* sign-magnitude addition *)
SMAdd(na, ma, nb, mb) ==   \* returns <<neg, mag>> with one extra limb
    IF na = nb THEN <<na, Add(ma, mb)>>
    ELSE IF Cmp(ma, mb) >= 0 THEN <<na, Add(SubMod(ma, mb), Zero(Len(ma)))>>
    ELSE <<nb, Add(SubMod(mb, ma), Zero(Len(ma)))>>

Expect(ok, bits) == [panic |-> NONE, bits |-> bits, alt |-> <<>>]
Panic(p) == [panic |-> p, bits |-> <<>>, alt |-> <<>>]

Bool(b) == IF b THEN <<1>> ELSE <<0>>
ValCmp(ty, a, b) ==   \* -1, 0, 1 : numeric order of two values of ty
    LET na == IsNeg(ty, a)  nb == IsNeg(ty, b)
    IN  IF na /\ ~nb THEN -1 ELSE IF ~na /\ nb THEN 1
        ELSE Cmp(BitsToLimbs(a), BitsToLimbs(b))    \* same sign: two's complement order = unsigned order

BitOp(op, a, b) == [i \in 1..Len(a) |->
                      IF op = "and" THEN a[i] * b[i]
                      ELSE IF op = "or" THEN (IF a[i] + b[i] > 0 THEN 1 ELSE 0)
                      ELSE (a[i] + b[i]) % 2]

SmallVal(bits) == 128 * bits[1] + 64 * bits[2] + 32 * bits[3] + 16 * bits[4] + 8 * bits[5] + 4 * bits[6] + 2 * bits[7] + bits[8]

Shl(a, k) == [i \in 1..Len(a) |-> IF i + k <= Len(a) THEN a[i + k] ELSE 0]
Shr(a, k, fill) == [i \in 1..Len(a) |-> IF i - k >= 1 THEN a[i - k] ELSE fill]

(* what the oracle demands for a non-division event; a, b are bit vectors *)
Oracle(op, ty, a, b) ==
    LET n == Len(a) \div 8
        na == IsNeg(ty, a)  ma == Mag(ty, a)
    IN
    CASE op \in {"add", "sub"} ->
            LET nb0 == IsNeg(ty, b)  mb == Mag(ty, b)
                nb == IF op = "sub" THEN (~nb0 /\ ~IsZero(mb)) ELSE nb0
                r == SMAdd(na, ma, nb, mb)
                neg == r[1] /\ ~IsZero(r[2])
            IN  IF Representable(ty, neg, r[2], n) THEN Expect(TRUE, FromSignMag(neg, Fit(r[2], n)))
                ELSE Panic(OVERFLOW)
      [] op = "mul" ->
            LET nb == IsNeg(ty, b)  mb == Mag(ty, b)
                p == Mul(ma, mb)
                neg == (na # nb) /\ ~IsZero(p)
            IN  IF Representable(ty, neg, p, n) THEN Expect(TRUE, FromSignMag(neg, Fit(p, n)))
                ELSE Panic(OVERFLOW)
      [] op \in {"and", "or", "xor"} -> Expect(TRUE, BitOp(op, a, b))
      [] op \in {"shl", "shr"} ->
            LET k == SmallVal(b)
            IN  IF k >= Len(a) THEN Panic(OVERFLOW)
                ELSE IF op = "shl" THEN Expect(TRUE, Shl(a, k))
                ELSE Expect(TRUE, Shr(a, k, IF Signed(ty) THEN a[1] ELSE 0))
      [] op = "lt" -> Expect(TRUE, Bool(ValCmp(ty, a, b) < 0))
      [] op = "gt" -> Expect(TRUE, Bool(ValCmp(ty, a, b) > 0))
      [] op = "le" -> Expect(TRUE, Bool(ValCmp(ty, a, b) <= 0))
      [] op = "ge" -> Expect(TRUE, Bool(ValCmp(ty, a, b) >= 0))
      [] op = "eq" -> Expect(TRUE, Bool(a = b))
      [] op = "ne" -> Expect(TRUE, Bool(a # b))
      [] op = "neg" -> IF Representable(ty, ~na /\ ~IsZero(ma), ma, n)
                       THEN Expect(TRUE, FromSignMag(~na /\ ~IsZero(ma), ma)) ELSE Panic(OVERFLOW)
      [] op = "not" -> Expect(TRUE, [i \in 1..Len(a) |-> 1 - a[i]])

(* casts: ev.ty = source type, ev.to = target type *)
WidthOf(ty) == CASE ty = "bool" -> 1 [] ty \in {"u8", "i8"} -> 8 [] ty \in {"u16", "i16"} -> 16
                 [] ty \in {"u32", "i32", "usize"} -> 32 [] OTHER -> 64
CastOracle(from, to, a) ==
    LET m == WidthOf(to)  n == Len(a)
    IN  IF to = "bool"
        THEN [panic |-> NONE, bits |-> <<a[n]>>, alt |-> Bool(\E i \in 1..n : a[i] = 1)]
        ELSE IF m <= n THEN Expect(TRUE, SubSeq(a, n - m + 1, n))
        ELSE Expect(TRUE, [i \in 1..(m - n) |-> IF Signed(from) THEN a[1] ELSE 0] \o a)

Agrees(exp, panic, out) ==
    IF exp.panic # NONE THEN panic = exp.panic
    ELSE panic = NONE /\ (out = exp.bits \/ (exp.alt # <<>> /\ out = exp.alt))

(* division and remainder of the same operands, judged together *)
DivModOK(ev) ==
    LET ty == ev.ty  a == ev.a  b == ev.b  n == Len(a) \div 8
        na == IsNeg(ty, a)  ma == Mag(ty, a)  nb == IsNeg(ty, b)  mb == Mag(ty, b)
    IN  IF IsZero(mb) THEN ev.panic = DIVZERO /\ ev.panic2 = DIVZERO
        ELSE IF Signed(ty) /\ na /\ ma = MinMag(n) /\ nb /\ mb = Small(1, n)
        THEN ev.panic = OVERFLOW
             /\ (ev.panic2 = OVERFLOW \/ (ev.panic2 = NONE /\ IsZero(BitsToLimbs(ev.out2))))
        ELSE /\ ev.panic = NONE /\ ev.panic2 = NONE
             /\ LET q == ev.out  r == ev.out2
                    nq == IsNeg(ty, q)  mq == Mag(ty, q)  nr == IsNeg(ty, r)  mr == Mag(ty, r)
                    prod == Mul(mq, mb)                 \* 2n limbs
                    total == Add(prod, Fit(mr, 2 * n))  \* 2n + 1 limbs
                IN  /\ total = Fit(ma, 2 * n + 1)       \* |a| = |q| |b| + |r|
                    /\ Cmp(mr, mb) < 0                  \* |r| < |b|
                    /\ (IsZero(mq) => ~nq) /\ (~IsZero(mq) => (nq = (na # nb)))
                    /\ (IsZero(mr) => ~nr) /\ (~IsZero(mr) => (nr = na))

Judge(ev) ==
    IF ev.op = "divmod" THEN (IF DivModOK(ev) THEN <<>> ELSE <<"divmod_identity_or_panic_wrong">>)
    ELSE IF ev.op = "cast"
    THEN LET exp == CastOracle(ev.ty, ev.to, ev.a)
         IN  IF Agrees(exp, ev.panic, ev.out) THEN <<>> ELSE <<exp>>
    ELSE LET exp == Oracle(ev.op, ev.ty, ev.a, ev.b)
         IN  IF Agrees(exp, ev.panic, ev.out) THEN <<>> ELSE <<exp>>

Init == l = 1
Next == /\ l <= Len(Rec)
        /\ LET bad == Judge(Rec[l]) IN bad # <<>> => PrintT(<<"MISMATCH", l, ToJson(bad)>>)
        /\ l' = l + 1
Spec == Init /\ [][Next]_vars
AllConsumed == TLCGet("stats").diameter - 1 = Len(Rec)
=============================================================================
