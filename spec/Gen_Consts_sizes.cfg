SPECIFICATION Spec
CONSTANTS
  Family = "sizes"
INVARIANT Emit
INVARIANT InRangeVals
CHECK_DEADLOCK FALSE
