SPECIFICATION Spec
CONSTANTS
  TypeSet = "wide"
  MaxArms = 3
  Pool = "full"
INVARIANT Emit
INVARIANT OracleSane
CHECK_DEADLOCK FALSE
