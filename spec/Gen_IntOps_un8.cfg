SPECIFICATION Spec
CONSTANTS
  Mode = "un8"
INVARIANT Emit
INVARIANT RowSane
CHECK_DEADLOCK FALSE
