SPECIFICATION Spec
CONSTANTS
  Mode = "joindup"
  MaxLen = 1
  MaxN = 3
  KeyMax = 3
INVARIANT NetworkSorts
INVARIANT Emit
CHECK_DEADLOCK FALSE
