----------------------------- MODULE MC_Builder -----------------------------
(* Model-checking instance of Builder.tla: build-level properties checked   *)
(* against the circuit semantics (CircuitSem) and the emission of replay    *)
(* cases for the real CircuitBuilder.                                       *)
EXTENDS Builder, CircuitSem

SortedSeq(S) == SetToSortSeq(S, <)

(* output selections examined at every state: everything handed back, and   *)
(* each single wire (so that pruning removes as much as possible)           *)
OutputChoices == {SortedSeq(handed)} \cup {<<w>> : w \in handed}

AssignOf(flat) == {i \in 0..(NumIn - 1) : flat[i + 1] = 1}

(* C04: the built circuit computes, on every output, the meaning of the     *)
(* requested wire                                                           *)
BuildPreservesOutputs ==
    \A outs \in OutputChoices :
        LET c == BuildModel(st, outs)
            sem == SemAll(st.gates)
        IN  /\ SsaWellFormed(c)
            /\ \A flat \in BitVecs(NumIn) :
                  LET o == SsaEvalFlat(c, flat)
                  IN  \A i \in 1..Len(outs) :
                         (o[i] = 1) <=> (AssignOf(flat) \in sem[outs[i] + 1])

(* C15 on the built circuit *)
BuildShape ==
    \A outs \in OutputChoices :
        LET c == BuildModel(st, outs)
        IN  /\ NoDeadGates(c)
            /\ NoTrivialAnd(c)
            /\ (CacheGates => NoDupAnd(c))

(* truth table of a meaning: assignment k (0..2^n-1), input i is bit        *)
(* (k \div 2^(n-1-i)) % 2, i.e. input 0 is the most significant bit         *)
Pow2(n) == IF n = 0 THEN 1 ELSE IF n = 1 THEN 2 ELSE IF n = 2 THEN 4 ELSE IF n = 3 THEN 8 ELSE 16
AssignK(k) == {i \in 0..(NumIn - 1) : (k \div Pow2(NumIn - 1 - i)) % 2 = 1}
Table(m) == [k \in 1..Pow2(NumIn) |-> IF AssignK(k - 1) \in m THEN 1 ELSE 0]

(* replay case: the request history with, per request, the literal truth    *)
(* tables the oracle demands and the wires the design model predicts        *)
Case ==
    LET sem == SemAll(st.gates)
    IN  [nin |-> NumIn, cache |-> CacheGates,
         reqs |-> [i \in 1..Len(reqs) |->
                     LET r == reqs[i]
                         m == [j \in 1..Len(r.args) |-> sem[r.args[j] + 1]]
                         lit == Literal(r.op, m)
                     IN  [op |-> r.op, args |-> r.args, ws |-> r.ws,
                          tts |-> [j \in 1..Len(lit) |-> Table(lit[j])]]],
         ngates |-> Len(st.gates)]

Emit == (History /\ Len(reqs) = MaxReq) => PrintT(<<"CASE", ToJson(Case)>>)

NoMacros == {}
AllMacros == {"not", "or", "eq", "mux", "adder"}
SomeMacros == {"not", "or", "mux"}
=============================================================================
