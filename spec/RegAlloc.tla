------------------------------ MODULE RegAlloc ------------------------------
(* Design layer for C10: the SSA -> register conversion as the explicit     *)
(* state machine the implementation runs (register_circuit.rs,              *)
(* RegisterAllocator::convert_circuit / find_out_reg), one ProcessGate      *)
(* action per SSA wire.  It is composed with the circuit constructor of     *)
(* Gen_Ssa so that TLC explores the allocator on *every* small SSA circuit. *)
(* Checked against the oracle layer (CircuitSem).                           *)
EXTENDS CircuitSem, TLC, Json

CONSTANTS PartyShapes, MaxGates, MaxOutputs

VARIABLES c, phase,      \* circuit under construction; "gates" | "alloc" | "done"
          pos,           \* next SSA wire to process
          wireMap,       \* live SSA wire -> register
          freeRegs,      \* stack of free registers
          nextReg,       \* next never-used register
          insts          \* emitted instructions

vars == <<c, phase, pos, wireMap, freeRegs, nextReg, insts>>

\* shapes with zero-bit parties (a single one, two in a row before a non-empty party, two in the middle) are part of both bounds
ShapesQuick == {<<1>>, <<2>>, <<1, 1>>, <<0, 1>>, <<0, 0, 2>>, <<1, 0, 0, 1>>}
ShapesThorough == {<<1>>, <<2>>, <<1, 1>>, <<3>>, <<1, 2>>, <<2, 1>>, <<0, 1>>, <<0, 0, 2>>, <<1, 0, 0, 1>>}

Wires(cc) == 0..(NumWires(cc) - 1)
MAXUSE == 1000000   \* stands for usize::MAX (outputs are never reused)
NoUse == -1

(* last_use_map: later uses overwrite earlier ones; outputs overwrite all *)
LastUse(cc, w) ==
    IF \E i \in 1..Len(cc.outputs) : cc.outputs[i] = w THEN MAXUSE
    ELSE LET users == {i \in 1..Len(cc.gates) : w \in GateRefs(cc.gates[i])}
         IN  IF users = {} THEN NoUse
             ELSE NumInputs(cc) + (CHOOSE i \in users : \A j \in users : j <= i) - 1

RECURSIVE InputInsts(_, _, _)
InputInsts(sizes, p, r) ==
    IF sizes = <<>> THEN <<>>
    ELSE [i \in 1..Head(sizes) |-> [out |-> r + i - 1, op |-> "input", a |-> p, b |-> i - 1]]
         \o InputInsts(Tail(sizes), p + 1, r + Head(sizes))

Init == /\ \E p \in PartyShapes : c = [inputs |-> p, gates |-> <<>>, outputs |-> <<>>]
        /\ phase = "gates"
        /\ pos = 0 /\ wireMap = <<>> /\ freeRegs = <<>> /\ nextReg = 0 /\ insts = <<>>

AddGate ==
    /\ phase = "gates"
    /\ Len(c.gates) < MaxGates
    /\ \/ \E op \in {"xor", "and"}, a, b \in Wires(c) :
             c' = [c EXCEPT !.gates = Append(@, [op |-> op, a |-> a, b |-> b])]
       \/ \E a \in Wires(c) :
             c' = [c EXCEPT !.gates = Append(@, [op |-> "not", a |-> a, b |-> a])]
    /\ UNCHANGED <<phase, pos, wireMap, freeRegs, nextReg, insts>>

Finish ==
    /\ phase = "gates"
    /\ \E n \in 1..MaxOutputs : \E outs \in [1..n -> Wires(c)] :
          c' = [c EXCEPT !.outputs = outs]
    /\ phase' = "alloc"
    /\ pos' = NumInputs(c)
    /\ wireMap' = [w \in 0..(NumInputs(c) - 1) |-> w]
    /\ freeRegs' = <<>>
    /\ nextReg' = NumInputs(c)
    /\ insts' = InputInsts(c.inputs, 0, 0)

DropKey(f, k) == [x \in (DOMAIN f \ {k}) |-> f[x]]

(* one iteration of the conversion loop, find_out_reg inlined *)
ProcessGate ==
    /\ phase = "alloc"
    /\ pos < NumWires(c)
    /\ LET g == c.gates[pos - NumInputs(c) + 1]
           a == g.a
           hasB == g.op # "not"
           b == g.b
           ra == wireMap[a]
           rb == wireMap[b]
           aLast == LastUse(c, a) = pos
           wm1 == IF aLast THEN DropKey(wireMap, a) ELSE wireMap
           reuse1 == IF aLast THEN ra ELSE -1
           bLast == hasB /\ LastUse(c, b) = pos /\ b \in DOMAIN wm1
           wm2 == IF bLast THEN DropKey(wm1, b) ELSE wm1
           reuse2 == IF bLast /\ reuse1 = -1 THEN rb ELSE reuse1
           free1 == IF bLast /\ reuse1 # -1 THEN Append(freeRegs, rb) ELSE freeRegs
           outReg == IF reuse2 # -1 THEN reuse2
                     ELSE IF free1 # <<>> THEN free1[Len(free1)]
                     ELSE nextReg
           free2 == IF reuse2 = -1 /\ free1 # <<>> THEN SubSeq(free1, 1, Len(free1) - 1) ELSE free1
           next2 == IF reuse2 = -1 /\ free1 = <<>> THEN nextReg + 1 ELSE nextReg
       IN  /\ insts' = Append(insts, [out |-> outReg, op |-> g.op, a |-> ra, b |-> IF hasB THEN rb ELSE ra])
           /\ wireMap' = (pos :> outReg) @@ wm2
           /\ freeRegs' = free2
           /\ nextReg' = next2
    /\ pos' = pos + 1
    /\ phase' = IF pos + 1 = NumWires(c) THEN "done" ELSE "alloc"
    /\ UNCHANGED c

FinishEmpty ==   \* circuits without gates are done at once
    /\ phase = "alloc" /\ pos = NumWires(c)
    /\ phase' = "done"
    /\ UNCHANGED <<c, pos, wireMap, freeRegs, nextReg, insts>>

Next == AddGate \/ Finish \/ ProcessGate \/ FinishEmpty

Spec == Init /\ [][Next]_vars

Result == [input_regs |-> c.inputs, insts |-> insts, max_reg_count |-> nextReg,
           output_regs |-> [i \in 1..Len(c.outputs) |-> wireMap[c.outputs[i]]],
           and_ops |-> AndCount(c)]

-----------------------------------------------------------------------------
(* Properties of the design *)


SeqRange(s) == {s[i] : i \in 1..Len(s)}

(* two live wires never share a register; free registers are not live *)
LiveRegsDisjoint ==
    phase \in {"alloc", "done"} =>
        /\ \A w1, w2 \in DOMAIN wireMap : w1 # w2 => wireMap[w1] # wireMap[w2]
        /\ SeqRange(freeRegs) \cap Range(wireMap) = {}
        /\ \A i, j \in 1..Len(freeRegs) : i # j => freeRegs[i] # freeRegs[j]

(* every wire that is still needed (used by a later gate or an output) is live *)
NeededWiresLive ==
    phase \in {"alloc", "done"} =>
        \A w \in 0..(pos - 1) : LastUse(c, w) >= pos => w \in DOMAIN wireMap

RegCountBounded == phase \in {"alloc", "done"} => nextReg <= NumWires(c)

(* the emitted program is safe and computes the SSA function on every input *)
DoneEquivalent ==
    phase = "done" =>
        \A flat \in BitVecs(NumInputs(c)) :
            LET parties == SplitBy(c.inputs, flat)
            IN  /\ RegEvalSafeOn(Result, parties)
                /\ RegOutputsDefinedOn(Result, parties)
                /\ RegEval(Result, parties) = SsaEvalFlat(c, flat)

(* generator duty: every explored circuit is handed to the real converter,  *)
(* together with what this model predicts (drift reporting only)            *)
Emit == phase = "done" => PrintT(<<"CASE", ToJson([ssa |-> c, model |-> Result])>>)
=============================================================================
