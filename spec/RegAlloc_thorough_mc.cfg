SPECIFICATION Spec
CONSTANTS
  PartyShapes <- ShapesThorough
  MaxGates = 3
  MaxOutputs = 2
INVARIANT LiveRegsDisjoint
INVARIANT NeededWiresLive
INVARIANT RegCountBounded
INVARIANT DoneEquivalent
CHECK_DEADLOCK FALSE
