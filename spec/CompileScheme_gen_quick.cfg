SPECIFICATION Spec
CONSTANTS
  NConds = 2
  MaxLen = 4
  Scheme = "fixed"
INVARIANT Emit
CHECK_DEADLOCK FALSE
