SPECIFICATION Spec
CONSTANTS
  NConds = 1
  MaxLen = 5
  Scheme = "and-no-mux"
INVARIANT SchemeRefinesSem
CHECK_DEADLOCK FALSE
