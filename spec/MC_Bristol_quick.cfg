SPECIFICATION Spec
CONSTANTS
  PartyShapes <- ShapesQuick
  MaxGates = 2
  MaxOutputs = 3
INVARIANT DesignCorrect
INVARIANT Emit
CHECK_DEADLOCK FALSE
