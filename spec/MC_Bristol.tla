----------------------------- MODULE MC_Bristol -----------------------------
(* Model-checking instance: the export design on every small SSA circuit    *)
(* (constructor of Gen_Ssa), emitting each circuit for the real exporter.   *)
EXTENDS BristolIO, TLC, Json
CONSTANTS PartyShapes, MaxGates, MaxOutputs
VARIABLES c, phase
vars == <<c, phase>>
ShapesQuick == {<<1>>, <<2>>, <<1, 1>>}
ShapesThorough == {<<1>>, <<2>>, <<1, 1>>, <<3>>, <<1, 2>>}
Wires(cc) == 0..(NumWires(cc) - 1)
Init == /\ \E p \in PartyShapes : c = [inputs |-> p, gates |-> <<>>, outputs |-> <<>>]
        /\ phase = "gates"
AddGate ==
    /\ phase = "gates" /\ Len(c.gates) < MaxGates
    /\ \/ \E op \in {"xor", "and"}, a, b \in Wires(c) :
             c' = [c EXCEPT !.gates = Append(@, [op |-> op, a |-> a, b |-> b])]
       \/ \E a \in Wires(c) : c' = [c EXCEPT !.gates = Append(@, [op |-> "not", a |-> a, b |-> a])]
    /\ UNCHANGED phase
Finish ==
    /\ phase = "gates"
    /\ \E n \in 1..MaxOutputs : \E outs \in [1..n -> Wires(c)] : c' = [c EXCEPT !.outputs = outs]
    /\ phase' = "done"
Next == AddGate \/ Finish
Spec == Init /\ [][Next]_vars
DesignCorrect == phase = "done" => ExportCorrect(c)
Emit == phase = "done" =>
          PrintT(<<"CASE", ToJson([ssa |-> c, exportable |-> OutputsAreNotInputs(c),
                                   model |-> IF OutputsAreNotInputs(c) THEN Export(c) ELSE [ngates |-> 0]])>>)
=============================================================================
