SPECIFICATION Spec
CONSTANTS
  MaxTok = 120
  NSubst = 40
INVARIANT Emit
CHECK_DEADLOCK FALSE
