SPECIFICATION Spec
CONSTANTS
  Depth = 1
INVARIANT Emit
INVARIANT SizeConsistent
CHECK_DEADLOCK FALSE
