SPECIFICATION Spec
CONSTANTS
  Kind = "reg"
  Shapes <- ShapesQ
  RegCounts <- RegCountsQ
  MaxElems = 2
  RefMax = 2
  MaxOutputs = 1
INVARIANT ValidImpliesSafe
INVARIANT ModelTotal
INVARIANT Emit
CHECK_DEADLOCK FALSE
