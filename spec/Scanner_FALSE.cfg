SPECIFICATION Spec
CONSTANTS
  MaxLen = 5
  EofExitsBlockComment = FALSE
INVARIANT Terminates
INVARIANT InBounds
CHECK_DEADLOCK FALSE
