SPECIFICATION Spec
CONSTANTS
  MaxLen = 2
  K = 22
INVARIANT Emit
CHECK_DEADLOCK FALSE
