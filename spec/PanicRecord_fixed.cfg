SPECIFICATION Spec
CONSTANTS
  NConds = 3
  MaxLen = 5
  Scheme = "fixed"
INVARIANT TypeOK
INVARIANT FirstFailureWins
PROPERTY PanicMonotone
CHECK_DEADLOCK FALSE
