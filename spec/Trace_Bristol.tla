---------------------------- MODULE Trace_Bristol ----------------------------
(* Trace validation for C11: what the real format_as_bristol wrote (parsed   *)
(* row by row) and what the real bristol_to_garble read back, for one SSA    *)
(* circuit per event.                                                        *)
EXTENDS BristolIO, TLC, Json, IOUtils
Rec == ndJsonDeserialize(IOEnv.TRACE)
VARIABLE l
vars == <<l>>

Judge(ev) ==
    IF ~ev.exportable
    THEN (IF ev.result = "panic" \/ ev.result = "ok" THEN <<"export_of_circuit_with_input_outputs_not_refused">> ELSE <<>>)
    ELSE IF ev.result # "ok" THEN <<"export_failed">>
    ELSE LET f == ev.file  c == ev.ssa
             wf == WellFormedBristol(f) /\ f.inputs = c.inputs /\ NOut(f) = Len(c.outputs)
             c1 == IF wf THEN <<>> ELSE <<"ill_formed_bristol">>
             c2 == IF ~wf \/ \A flat \in BitVecs(NumInputs(c)) : EvalBristol(f, flat) = SsaEvalFlat(c, flat)
                   THEN <<>> ELSE <<"exported_function_differs">>
             c3 == IF ev.reimport.status = "ok" THEN <<>> ELSE <<"reimport_failed">>
             r == ev.reimport.ssa
             c4 == IF c3 # <<>> \/ (SsaWellFormed(r) /\ r.inputs = c.inputs /\ Len(r.outputs) = Len(c.outputs)
                                    /\ \A flat \in BitVecs(NumInputs(c)) : SsaEvalFlat(r, flat) = SsaEvalFlat(c, flat))
                   THEN <<>> ELSE <<"reimported_function_differs">>
         IN  c1 \o c2 \o c3 \o c4

Init == l = 1
Next == /\ l <= Len(Rec)
        /\ LET bad == Judge(Rec[l]) IN bad # <<>> => PrintT(<<"MISMATCH", l, ToJson(bad)>>)
        /\ l' = l + 1
Spec == Init /\ [][Next]_vars
AllConsumed == TLCGet("stats").diameter - 1 = Len(Rec)
=============================================================================
