---------------------------- MODULE Gen_CircVals ----------------------------
(* Generator for C16: every small circuit *value*, well formed or not       *)
(* (forward / self / out-of-range references, empty lists, parties of size  *)
(* 0, input instructions naming any party / index, any max_reg_count),      *)
(* built one element at a time.  Each finished value is emitted with the    *)
(* oracle's verdict EvalSafe and the verdict of the validation design model.*)
(* The invariant ValidImpliesSafe is the design-level statement of C16.     *)
EXTENDS Validate, TLC, Json

CONSTANTS Kind,          \* "ssa" or "reg"
          Shapes,        \* set of party-size sequences
          MaxElems,      \* max gates / instructions
          RefMax,        \* references range over 0..RefMax
          MaxOutputs,
          RegCounts      \* set of max_reg_count values (reg only)

VARIABLES v, phase
vars == <<v, phase>>

ShapesQ == {<<>>, <<0>>, <<1>>, <<1, 1>>}
ShapesT == {<<>>, <<0>>, <<1>>, <<2>>, <<1, 1>>, <<0, 1>>, <<1, 0>>}
RegCountsQ == {0, 1, 2, 3}
RegCountsT == {0, 1, 2, 3, 4}

Refs == 0..RefMax

Init ==
    /\ phase = "elems"
    /\ IF Kind = "ssa"
       THEN \E p \in Shapes : v = [inputs |-> p, gates |-> <<>>, outputs |-> <<>>]
       ELSE \E p \in Shapes, r \in RegCounts :
              v = [input_regs |-> p, insts |-> <<>>, max_reg_count |-> r,
                   output_regs |-> <<>>, and_ops |-> 0]

AddElem ==
    /\ phase = "elems"
    /\ IF Kind = "ssa"
       THEN /\ Len(v.gates) < MaxElems
            /\ \/ \E op \in {"xor", "and"}, a, b \in Refs :
                    v' = [v EXCEPT !.gates = Append(@, [op |-> op, a |-> a, b |-> b])]
               \/ \E a \in Refs :
                    v' = [v EXCEPT !.gates = Append(@, [op |-> "not", a |-> a, b |-> a])]
       ELSE /\ Len(v.insts) < MaxElems
            /\ \E out \in Refs :
               \/ \E op \in {"xor", "and", "input"}, a, b \in Refs :
                    v' = [v EXCEPT !.insts = Append(@, [out |-> out, op |-> op, a |-> a, b |-> b])]
               \/ \E a \in Refs :
                    v' = [v EXCEPT !.insts = Append(@, [out |-> out, op |-> "not", a |-> a, b |-> a])]
    /\ UNCHANGED phase

Finish ==
    /\ phase = "elems"
    /\ \E n \in 0..MaxOutputs : \E outs \in [1..n -> Refs] :
          v' = IF Kind = "ssa" THEN [v EXCEPT !.outputs = outs]
               ELSE [v EXCEPT !.output_regs = outs]
    /\ phase' = "done"

Next == AddElem \/ Finish
Spec == Init /\ [][Next]_vars

Safe == IF Kind = "ssa" THEN SsaSafe(v) ELSE RegSafe(v)
ModelVerdict == IF Kind = "ssa" THEN SsaValidateModel(v) ELSE RegValidateModel(v)

(* C16 at the design level *)
ValidImpliesSafe == phase = "done" => (ModelVerdict = "ok" => Safe)
(* the validation model never crashes *)
ModelTotal == phase = "done" => ModelVerdict \in {"ok", "err"}

Emit == phase = "done" =>
          PrintT(<<"CASE", ToJson([kind |-> Kind, c |-> v, safe |-> Safe, model |-> ModelVerdict])>>)
=============================================================================
