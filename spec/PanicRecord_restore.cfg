SPECIFICATION Spec
CONSTANTS
  NConds = 2
  MaxLen = 4
  Scheme = "restore"
INVARIANT FirstFailureWins
CHECK_DEADLOCK FALSE
