-------------------------------- MODULE Num --------------------------------
(* Integers wider than TLC's 32-bit Int: unsigned numbers as little-endian  *)
(* sequences of base-256 limbs.  Only schoolbook algorithms whose            *)
(* intermediates stay far below 2^31.                                       *)
EXTENDS Naturals, Integers, Sequences

RECURSIVE P2(_)
P2(n) == IF n = 0 THEN 1 ELSE 2 * P2(n - 1)

(* bits: sequence of 0/1, most significant first, length a multiple of 8 *)
ByteVal(bits, k) ==  \* k-th byte from the least significant end, k >= 1
    LET n == Len(bits)  hi == n - 8 * k   \* bits[hi+1..hi+8]
    IN  128 * bits[hi + 1] + 64 * bits[hi + 2] + 32 * bits[hi + 3] + 16 * bits[hi + 4]
        + 8 * bits[hi + 5] + 4 * bits[hi + 6] + 2 * bits[hi + 7] + bits[hi + 8]
BitsToLimbs(bits) == [k \in 1..(Len(bits) \div 8) |-> ByteVal(bits, k)]

ByteBits(v) == << (v \div 128) % 2, (v \div 64) % 2, (v \div 32) % 2, (v \div 16) % 2,
                  (v \div 8) % 2, (v \div 4) % 2, (v \div 2) % 2, v % 2 >>
RECURSIVE LimbsToBits(_)
LimbsToBits(l) == IF l = <<>> THEN <<>> ELSE LimbsToBits(Tail(l)) \o ByteBits(Head(l))

Zero(n) == [k \in 1..n |-> 0]
IsZero(a) == \A k \in 1..Len(a) : a[k] = 0

(* pad / truncate to n limbs *)
Fit(a, n) == [k \in 1..n |-> IF k <= Len(a) THEN a[k] ELSE 0]

(* a + b + c0 on equal-length limb sequences; result has one more limb *)
RECURSIVE AddAux(_, _, _, _)
AddAux(a, b, k, carry) ==
    IF k > Len(a) THEN <<carry>>
    ELSE LET s == a[k] + b[k] + carry
         IN  <<s % 256>> \o AddAux(a, b, k + 1, s \div 256)
AddC(a, b, c0) == AddAux(a, b, 1, c0)
Add(a, b) == AddC(a, b, 0)

Inv(a) == [k \in 1..Len(a) |-> 255 - a[k]]
(* two's complement negation modulo 256^Len(a) *)
NegMod(a) == Fit(AddC(Inv(a), Zero(Len(a)), 1), Len(a))
(* a - b modulo 256^Len(a) (equal lengths) *)
SubMod(a, b) == Fit(AddC(a, Inv(b), 1), Len(a))

(* comparison of unsigned numbers of equal length: -1, 0, 1 *)
RECURSIVE CmpAux(_, _, _)
CmpAux(a, b, k) ==
    IF k = 0 THEN 0
    ELSE IF a[k] < b[k] THEN -1 ELSE IF a[k] > b[k] THEN 1 ELSE CmpAux(a, b, k - 1)
Cmp(a, b) == CmpAux(a, b, Len(a))

(* schoolbook product: Len(a) + Len(b) limbs *)
RECURSIVE ColSum(_, _, _, _)
ColSum(a, b, col, i) ==   \* sum of a[i] * b[col - i + 1] for i..Len(a)
    IF i > Len(a) THEN 0
    ELSE (IF col - i + 1 >= 1 /\ col - i + 1 <= Len(b) THEN a[i] * b[col - i + 1] ELSE 0)
         + ColSum(a, b, col, i + 1)
RECURSIVE MulAux(_, _, _, _)
MulAux(a, b, col, carry) ==
    IF col > Len(a) + Len(b) THEN <<>>
    ELSE LET s == ColSum(a, b, col, 1) + carry
         IN  <<s % 256>> \o MulAux(a, b, col + 1, s \div 256)
Mul(a, b) == MulAux(a, b, 1, 0)

(* the number 2^(8*n - 1) (the magnitude of MIN of an n-limb signed type) as n limbs *)
MinMag(n) == [k \in 1..n |-> IF k = n THEN 128 ELSE 0]
(* the small natural v (< 256) as n limbs *)
Small(v, n) == [k \in 1..n |-> IF k = 1 THEN v ELSE 0]
=============================================================================
