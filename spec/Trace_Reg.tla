----------------------------- MODULE Trace_Reg -----------------------------
(* Trace validation (implementation -> spec) for C10.                       *)
(* One event = one conversion performed by the real                         *)
(* register_circuit::Circuit::from(&ssa):                                   *)
(*   [ssa, reg, validate_ok, all, assigns]                                  *)
(* The oracle re-executes the logged register program on the register       *)
(* step machine of CircuitSem (explicit defined-set discipline) and         *)
(* compares it with the SSA semantics.                                      *)
EXTENDS CircuitSem, TLC, Json, IOUtils

Rec == ndJsonDeserialize(IOEnv.TRACE)

VARIABLE l
vars == <<l>>

(* the first NumInputs instructions load every party's inputs in order *)
RECURSIVE InputOrder(_, _)
InputOrder(sizes, p) ==
    IF sizes = <<>> THEN <<>>
    ELSE [i \in 1..Head(sizes) |-> <<p, i - 1>>] \o InputOrder(Tail(sizes), p + 1)

InputsLoadedInOrder(ssa, reg) ==
    LET ord == InputOrder(ssa.inputs, 0)
    IN  /\ Len(reg.insts) >= Len(ord)
        /\ reg.input_regs = ssa.inputs
        /\ \A i \in 1..Len(ord) :
              /\ reg.insts[i].op = "input"
              /\ reg.insts[i].a = ord[i][1]
              /\ reg.insts[i].b = ord[i][2]
        /\ \A i \in (Len(ord) + 1)..Len(reg.insts) : reg.insts[i].op # "input"

Assigns(ev) == IF ev.all THEN BitVecs(NumInputs(ev.ssa))
               ELSE {ev.assigns[i] : i \in 1..Len(ev.assigns)}

Judge(ev) ==
    LET ssa == ev.ssa
        reg == ev.reg
        asg == Assigns(ev)
        c1 == IF ev.validate_ok THEN <<>> ELSE <<"validate_rejects">>
        c2 == IF InputsLoadedInOrder(ssa, reg) THEN <<>> ELSE <<"inputs_not_in_order">>
        c3 == IF \A flat \in asg : RegEvalSafeOn(reg, SplitBy(ssa.inputs, flat))
                                    /\ RegOutputsDefinedOn(reg, SplitBy(ssa.inputs, flat))
              THEN <<>> ELSE <<"reads_unwritten_or_out_of_range_register">>
        c4 == IF c3 = <<>> /\ \A flat \in asg :
                     RegEval(reg, SplitBy(ssa.inputs, flat)) = SsaEvalFlat(ssa, flat)
              THEN <<>> ELSE <<"outputs_differ">>
        c5 == IF reg.max_reg_count <= NumWires(ssa) THEN <<>> ELSE <<"reg_count_exceeds_wires">>
        c6 == IF reg.and_ops = AndCount(ssa) THEN <<>> ELSE <<"and_ops_differ">>
        c7 == IF Len(reg.insts) = NumWires(ssa) THEN <<>> ELSE <<"inst_count">>
    IN  c1 \o c2 \o c3 \o (IF c3 = <<>> THEN c4 ELSE <<>>) \o c5 \o c6 \o c7

Init == l = 1

Next == /\ l <= Len(Rec)
        /\ LET bad == Judge(Rec[l])
           IN  bad # <<>> => PrintT(<<"MISMATCH", l, ToJson(bad)>>)
        /\ l' = l + 1

Spec == Init /\ [][Next]_vars

AllConsumed == TLCGet("stats").diameter - 1 = Len(Rec)
=============================================================================
