SPECIFICATION Spec
CONSTANTS
  TypeSet = "narrow"
  MaxArms = 3
  Pool = "small"
INVARIANT Emit
INVARIANT OracleSane
CHECK_DEADLOCK FALSE
