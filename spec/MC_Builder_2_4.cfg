SPECIFICATION Spec
CONSTANTS
  NumIn = 2
  CacheGates = TRUE
  MaxReq = 4
  History = FALSE
  Macros <- NoMacros
INVARIANT ResponseSound
INVARIANT GatesWellFormed
INVARIANT BuildPreservesOutputs
INVARIANT BuildShape
PROPERTY AppendOnly
CHECK_DEADLOCK FALSE
