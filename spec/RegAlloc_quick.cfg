SPECIFICATION Spec
CONSTANTS
  PartyShapes <- ShapesQuick
  MaxGates = 2
  MaxOutputs = 2
INVARIANT LiveRegsDisjoint
INVARIANT NeededWiresLive
INVARIANT RegCountBounded
INVARIANT DoneEquivalent
INVARIANT Emit
CHECK_DEADLOCK FALSE
