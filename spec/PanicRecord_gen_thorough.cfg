SPECIFICATION Spec
CONSTANTS
  NConds = 3
  MaxLen = 5
  Scheme = "fixed"
INVARIANT Emit
CHECK_DEADLOCK FALSE
