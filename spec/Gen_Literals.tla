---------------------------- MODULE Gen_Literals ----------------------------
(* Generator for C09 (spec -> implementation).  For the bounded type        *)
(* universe below and boundary value sets, every (type, value) is emitted   *)
(* with the bits Layout.Encode demands and with a family of literal         *)
(* *spellings*, each with its denotation according to the documented        *)
(* meaning of literals:                                                     *)
(*   "canon"   the canonical spelling of v: must be accepted, encode to the *)
(*             expected bits, decode back, print/parse back, survive the    *)
(*             identity program;                                            *)
(*   "same"    another spelling that denotes the same v (struct fields in   *)
(*             another order, ArrayRepeat, Range): if the API accepts it,   *)
(*             it must encode to the same bits;                             *)
(*   "nothing" a spelling that denotes no value of the type (out-of-range   *)
(*             number, wrong suffix, missing / extra / duplicated field,    *)
(*             wrong variant arity, unit/tuple confusion, wrong length,     *)
(*             inverted or overflowing range): must be refused, no panic.   *)
(* A literal is [k |-> "true"|"false"] | [k |-> "u"|"i", v, t] |            *)
(* [k |-> "arr"|"tup", es] | [k |-> "rep", e, n] | [k |-> "range", lo, hi,  *)
(* t] | [k |-> "struct", name, fs : <<[n, l]>>] | [k |-> "enum", name, v,   *)
(* unit : BOOLEAN, es].                                                     *)
EXTENDS Layout, TLC, Json, FiniteSets

CONSTANT Depth     \* 0: flat types only; 1: one level of nesting of compound types

VARIABLES case, done
vars == <<case, done>>

Prog == [structs |-> [P |-> << [n |-> "a", t |-> [k |-> "int", t |-> "u8"]],
                               [n |-> "b", t |-> [k |-> "bool"]],
                               [n |-> "c", t |-> [k |-> "int", t |-> "i16"]] >>],
         enums |-> [E3 |-> << [n |-> "A", fs |-> <<>>],
                              [n |-> "B", fs |-> << [k |-> "int", t |-> "u8"] >>],
                              [n |-> "C", fs |-> << [k |-> "bool"], [k |-> "int", t |-> "i8"] >>] >>,
                    E5 |-> << [n |-> "V0", fs |-> <<>>], [n |-> "V1", fs |-> <<>>],
                              [n |-> "V2", fs |-> << [k |-> "int", t |-> "u16"] >>],
                              [n |-> "V3", fs |-> <<>>],
                              [n |-> "V4", fs |-> << [k |-> "bool"] >>] >>]]

TBool == [k |-> "bool"]
TInt(t) == [k |-> "int", t |-> t]
TArr(e, n) == [k |-> "arr", e |-> e, n |-> n]
TTup(fs) == [k |-> "tup", fs |-> fs]
TStruct(n) == [k |-> "struct", name |-> n]
TEnum(n) == [k |-> "enum", name |-> n]

Scalars == {TBool, TInt("u8"), TInt("i8"), TInt("u16"), TInt("i16"), TInt("u32"), TInt("i32"), TInt("u64"), TInt("i64"), TInt("usize")}
Flat == Scalars \cup {TStruct("P"), TEnum("E3"), TEnum("E5"),
                      TArr(TInt("u8"), 2), TArr(TBool, 3), TArr(TInt("i16"), 1), TArr(TInt("u8"), 0),
                      TTup(<<TInt("u8"), TBool>>), TTup(<<>>), TTup(<<TInt("i8"), TInt("u16"), TBool>>)}
Nested == {TArr(TEnum("E3"), 2), TArr(TStruct("P"), 2), TTup(<<TStruct("P"), TInt("u8")>>),
           TArr(TTup(<<TInt("u8"), TBool>>), 2), TTup(<<TEnum("E5"), TArr(TInt("u8"), 2)>>),
           TArr(TArr(TInt("u8"), 2), 2)}
Types == IF Depth = 0 THEN Flat ELSE Flat \cup Nested

IntVals(t) ==
    IF t \in {"u8", "i8", "u16", "i16"}
    THEN {MinOf(t), MinOf(t) + 1, MaxOf(t), MaxOf(t) - 1, 0, 1} \cup (IF IsSigned(t) THEN {-1} ELSE {})
    ELSE IF IsSigned(t) THEN {0, 1, -1, 1000, -70000} ELSE {0, 1, 255, 70000}

RECURSIVE Product(_)
Product(ss) == IF ss = <<>> THEN {<<>>} ELSE {<<h>> \o t : h \in Head(ss), t \in Product(Tail(ss))}
(* at most three representatives of a value set *)
Few(S) == IF Cardinality(S) <= 3 THEN S
          ELSE LET q == SetToSeq(S) IN {q[1], q[(Len(q) + 1) \div 2], q[Len(q)]}

RECURSIVE Vals(_)
Vals(T) ==
    CASE T.k = "bool" -> {0, 1}
      [] T.k = "int" -> IntVals(T.t)
      [] T.k = "arr" -> Product([i \in 1..T.n |-> IF T.e.k \in {"bool", "int"} /\ T.n <= 2 THEN Vals(T.e) ELSE Few(Vals(T.e))])
      [] T.k = "tup" -> Product([i \in 1..Len(T.fs) |-> IF T.fs[i].k \in {"bool", "int"} THEN Vals(T.fs[i]) ELSE Few(Vals(T.fs[i]))])
      [] T.k = "struct" -> LET fs == Prog.structs[T.name]
                           IN  Product([i \in 1..Len(fs) |-> Vals(fs[i].t)])
      [] T.k = "enum" -> LET vs == Prog.enums[T.name]
                         IN  UNION { {[tag |-> i - 1, f |-> s] : s \in Product([j \in 1..Len(vs[i].fs) |-> Vals(vs[i].fs[j])])}
                                     : i \in 1..Len(vs) }

(* the canonical literal of a value *)
RECURSIVE Canon(_, _)
Canon(T, v) ==
    CASE T.k = "bool" -> [k |-> IF v = 1 THEN "true" ELSE "false"]
      [] T.k = "int" -> [k |-> IF IsSigned(T.t) THEN "i" ELSE "u", v |-> v, t |-> T.t]
      [] T.k = "arr" -> [k |-> "arr", es |-> [i \in 1..T.n |-> Canon(T.e, v[i])]]
      [] T.k = "tup" -> [k |-> "tup", es |-> [i \in 1..Len(T.fs) |-> Canon(T.fs[i], v[i])]]
      [] T.k = "struct" -> LET fs == Prog.structs[T.name]
                           IN  [k |-> "struct", name |-> T.name,
                                fs |-> [i \in 1..Len(fs) |-> [n |-> fs[i].n, l |-> Canon(fs[i].t, v[i])]]]
      [] T.k = "enum" -> LET var == Prog.enums[T.name][v.tag + 1]
                         IN  [k |-> "enum", name |-> T.name, v |-> var.n, unit |-> var.fs = <<>>,
                              es |-> [j \in 1..Len(var.fs) |-> Canon(var.fs[j], v.f[j])]]

(* adversarial spellings at the top level of (T, v): set of [den, lit, why] *)
OtherIntTypes(t) == {"u8", "i8", "u16", "i64", "usize"} \ {t}
Spellings(T, v) ==
    LET c == Canon(T, v) IN
    CASE T.k = "bool" -> {[den |-> "nothing", lit |-> [k |-> "u", v |-> v, t |-> "u8"], why |-> "number_for_bool"]}
      [] T.k = "int" ->
            {[den |-> "nothing", lit |-> [c EXCEPT !.t = t2, !.k = IF IsSigned(t2) THEN "i" ELSE "u"], why |-> "wrong_suffix"]
                : t2 \in {x \in OtherIntTypes(T.t) : IsSigned(x) \/ v >= 0}}
            \cup (IF T.t \in {"u8", "i8", "u16", "i16"}
                  THEN {[den |-> "nothing", lit |-> [c EXCEPT !.v = MaxOf(T.t) + 1], why |-> "above_max"],
                        [den |-> "nothing", lit |-> [c EXCEPT !.v = MaxOf(T.t) + 45], why |-> "above_max"]}
                       \cup (IF IsSigned(T.t) THEN {[den |-> "nothing", lit |-> [c EXCEPT !.v = MinOf(T.t) - 1], why |-> "below_min"]} ELSE {})
                  ELSE \* wide types: TLC integers are 32-bit, so the literal carries an offset relative to the type's bound ("max": max + v,
                       \* "min": min - v); the harness resolves it (and skips it where the host representation cannot hold the number)
                       {[den |-> "nothing", lit |-> [k |-> c.k, v |-> d, t |-> T.t, rel |-> "max"], why |-> "above_max"] : d \in {1, 6}}
                       \cup (IF IsSigned(T.t) THEN {[den |-> "nothing", lit |-> [k |-> c.k, v |-> 1, t |-> T.t, rel |-> "min"], why |-> "below_min"]} ELSE {}))
            \cup {[den |-> "nothing", lit |-> [k |-> IF v = 0 THEN "false" ELSE "true"], why |-> "bool_for_number"]}
      [] T.k = "arr" ->
            {[den |-> "nothing", lit |-> [c EXCEPT !.es = Append(@, IF T.n = 0 THEN Canon(T.e, CHOOSE x \in Vals(T.e) : TRUE) ELSE @[1])], why |-> "too_long"]}
            \cup (IF T.n > 0 THEN {[den |-> "nothing", lit |-> [c EXCEPT !.es = Tail(@)], why |-> "too_short"],
                                   [den |-> "nothing", lit |-> [k |-> "tup", es |-> c.es], why |-> "tuple_for_array"]} ELSE {})
            \cup (IF T.n > 0 /\ \A i \in 1..T.n : v[i] = v[1]
                  THEN {[den |-> "same", lit |-> [k |-> "rep", e |-> c.es[1], n |-> T.n], why |-> "array_repeat"],
                        [den |-> "nothing", lit |-> [k |-> "rep", e |-> c.es[1], n |-> T.n + 1], why |-> "array_repeat_wrong_length"]}
                  ELSE {})
            \cup (IF T.e.k = "int" /\ ~IsSigned(T.e.t) /\ T.n > 0 /\ \A i \in 1..T.n : v[i] = v[1] + i - 1
                  THEN {[den |-> "same", lit |-> [k |-> "range", lo |-> v[1], hi |-> v[1] + T.n, t |-> T.e.t], why |-> "range"]}
                  ELSE {})
            \cup (IF T.e.k = "int" /\ ~IsSigned(T.e.t) /\ T.n > 0
                  THEN {[den |-> "nothing", lit |-> [k |-> "range", lo |-> 5 + T.n, hi |-> 5, t |-> T.e.t], why |-> "range_inverted"],
                        [den |-> "nothing", lit |-> [k |-> "range", lo |-> 2, hi |-> 3 + T.n, t |-> T.e.t], why |-> "range_wrong_length"],
                        [den |-> "nothing", lit |-> [k |-> "range", lo |-> 1, hi |-> 1 + T.n, t |-> IF T.e.t = "u8" THEN "u16" ELSE "u8"], why |-> "range_wrong_type"]}
                       \cup (IF T.e.t = "u8" THEN {[den |-> "nothing", lit |-> [k |-> "range", lo |-> 256 - T.n + 1, hi |-> 257, t |-> "u8"], why |-> "range_beyond_type"]} ELSE {})
                  ELSE {})
      [] T.k = "tup" ->
            {[den |-> "nothing", lit |-> [c EXCEPT !.es = Append(@, [k |-> "true"])], why |-> "too_many_fields"]}
            \cup (IF T.fs # <<>> THEN {[den |-> "nothing", lit |-> [c EXCEPT !.es = Tail(@)], why |-> "too_few_fields"],
                                       [den |-> "nothing", lit |-> [k |-> "arr", es |-> c.es], why |-> "array_for_tuple"]} ELSE {})
      [] T.k = "struct" ->
            LET n == Len(c.fs) IN
            {[den |-> "same", lit |-> [c EXCEPT !.fs = [i \in 1..n |-> c.fs[n + 1 - i]]], why |-> "fields_reversed"],
             [den |-> "same", lit |-> [c EXCEPT !.fs = <<c.fs[2], c.fs[1]>> \o SubSeq(c.fs, 3, n)], why |-> "fields_swapped"],
             [den |-> "nothing", lit |-> [c EXCEPT !.fs = Tail(@)], why |-> "missing_field"],
             [den |-> "nothing", lit |-> [c EXCEPT !.fs = Append(@, [n |-> "zz", l |-> [k |-> "true"]])], why |-> "extra_field"],
             [den |-> "nothing", lit |-> [c EXCEPT !.fs = <<c.fs[1], c.fs[1]>> \o SubSeq(c.fs, 3, n)], why |-> "duplicated_field"],
             [den |-> "nothing", lit |-> [c EXCEPT !.fs = Append(@, c.fs[1])], why |-> "duplicated_extra_field"],
             [den |-> "nothing", lit |-> [c EXCEPT !.name = "Q"], why |-> "unknown_struct"],
             [den |-> "nothing", lit |-> [k |-> "tup", es |-> [i \in 1..n |-> c.fs[i].l]], why |-> "tuple_for_struct"]}
      [] T.k = "enum" ->
            {[den |-> "nothing", lit |-> [c EXCEPT !.es = Append(@, [k |-> "true"]), !.unit = FALSE], why |-> "too_many_variant_fields"],
             [den |-> "nothing", lit |-> [c EXCEPT !.v = "Nope"], why |-> "unknown_variant"],
             [den |-> "nothing", lit |-> [c EXCEPT !.name = "E9"], why |-> "unknown_enum"]}
            \cup (IF c.es # <<>> THEN {[den |-> "nothing", lit |-> [c EXCEPT !.es = Tail(@)], why |-> "too_few_variant_fields"],
                                       [den |-> "nothing", lit |-> [c EXCEPT !.es = <<>>, !.unit = TRUE], why |-> "unit_for_tuple_variant"]}
                  ELSE {[den |-> "nothing", lit |-> [c EXCEPT !.unit = FALSE], why |-> "empty_tuple_for_unit_variant"]})

(* the same families one level down: a child position holds a non-canonical spelling *)
ChildSpellings(T, v) ==
    LET c == Canon(T, v)
        Tag(s, pos) == [den |-> s.den, why |-> "child_" \o s.why]
    IN
    CASE T.k = "arr" -> UNION {{[den |-> s.den, why |-> "elem_" \o s.why, lit |-> [c EXCEPT !.es[i] = s.lit]] : s \in Spellings(T.e, v[i])} : i \in 1..T.n}
      [] T.k = "tup" -> UNION {{[den |-> s.den, why |-> "field_" \o s.why, lit |-> [c EXCEPT !.es[i] = s.lit]] : s \in Spellings(T.fs[i], v[i])} : i \in 1..Len(T.fs)}
      [] T.k = "struct" ->
            LET fs == Prog.structs[T.name]
            IN  UNION {{[den |-> s.den, why |-> "sfield_" \o s.why, lit |-> [c EXCEPT !.fs[i].l = s.lit]] : s \in Spellings(fs[i].t, v[i])} : i \in 1..Len(fs)}
      [] T.k = "enum" ->
            LET var == Prog.enums[T.name][v.tag + 1]
            IN  UNION {{[den |-> s.den, why |-> "vfield_" \o s.why, lit |-> [c EXCEPT !.es[j] = s.lit]] : s \in Spellings(var.fs[j], v.f[j])} : j \in 1..Len(var.fs)}
      [] OTHER -> {}

Init == case = <<>> /\ done = FALSE
Next == /\ ~done /\ done' = TRUE
        /\ \E T \in Types : \E v \in Vals(T) :
              case' = [ty |-> T, v |-> v, bits |-> Encode(Prog, T, v), size |-> SizeOf(Prog, T),
                       canon |-> Canon(T, v),
                       spellings |-> SetToSeq(Spellings(T, v) \cup ChildSpellings(T, v))]
Spec == Init /\ [][Next]_vars
Emit == done => PrintT(<<"CASE", ToJson(case)>>)
(* oracle self-check: the layout has the declared size *)
SizeConsistent == done => Len(case.bits) = case.size
=============================================================================
