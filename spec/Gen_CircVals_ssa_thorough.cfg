SPECIFICATION Spec
CONSTANTS
  Kind = "ssa"
  Shapes <- ShapesT
  RegCounts <- RegCountsT
  MaxElems = 3
  RefMax = 4
  MaxOutputs = 1
INVARIANT ValidImpliesSafe
INVARIANT ModelTotal
INVARIANT Emit
CHECK_DEADLOCK FALSE
