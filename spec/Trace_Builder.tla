--------------------------- MODULE Trace_Builder ---------------------------
(* Trace validation (implementation -> spec) for C04: request sequences      *)
(* recorded from the real CircuitBuilder.  The trace machine keeps, as its   *)
(* state, the truth table of every wire handed back so far (ids: 0,1 =       *)
(* constants, 2..nin+1 = inputs, then responses in order) and checks at      *)
(* every step that the observed truth table of each response (obtained from  *)
(* the real built circuit) is the literal function of the operands'          *)
(* tables: ResponseSound evaluated on the recorded history.                  *)
EXTENDS Naturals, Sequences, TLC, Json, IOUtils

Rec == ndJsonDeserialize(IOEnv.TRACE)

VARIABLES l, tabs
vars == <<l, tabs>>

Pow2Aux(n) == IF n = 0 THEN 1 ELSE IF n = 1 THEN 2 ELSE IF n = 2 THEN 4 ELSE IF n = 3 THEN 8 ELSE 16

BaseTabs(nin) ==
    LET N == Pow2Aux(nin)
    IN  << [k \in 1..N |-> 0], [k \in 1..N |-> 1] >>
        \o [i \in 1..nin |-> [k \in 1..N |-> ((k - 1) \div Pow2Aux(nin - i)) % 2]]

X(a, b) == [k \in 1..Len(a) |-> (a[k] + b[k]) % 2]
A(a, b) == [k \in 1..Len(a) |-> a[k] * b[k]]
N(a) == [k \in 1..Len(a) |-> 1 - a[k]]
O(a, b) == [k \in 1..Len(a) |-> IF a[k] + b[k] > 0 THEN 1 ELSE 0]
M(s, a, b) == [k \in 1..Len(a) |-> IF s[k] = 1 THEN a[k] ELSE b[k]]

Literal(op, m) ==
    IF op = "xor" THEN <<X(m[1], m[2])>>
    ELSE IF op = "and" THEN <<A(m[1], m[2])>>
    ELSE IF op = "not" THEN <<N(m[1])>>
    ELSE IF op = "or" THEN <<O(m[1], m[2])>>
    ELSE IF op = "eq" THEN <<N(X(m[1], m[2]))>>
    ELSE IF op = "mux" THEN <<M(m[1], m[2], m[3])>>
    ELSE IF op = "adder" THEN << X(X(m[1], m[2]), m[3]),
                                 O(O(A(m[1], m[2]), A(m[1], m[3])), A(m[2], m[3])) >>
    ELSE (* condswap(s, x, y) -> (s ? y : x, s ? x : y) *)
         << M(m[1], m[3], m[2]), M(m[1], m[2], m[3]) >>

Init == l = 1 /\ tabs = <<>>

Step(ev) ==
    IF ev.ev = "New" THEN tabs' = BaseTabs(ev.nin)
    ELSE IF ev.ev = "Req"
    THEN LET m == [i \in 1..Len(ev.args) |-> tabs[ev.args[i] + 1]]
             lit == Literal(ev.op, m)
         IN  /\ (ev.outs # lit => PrintT(<<"MISMATCH", l, ToJson([op |-> ev.op, expected |-> lit])>>))
             /\ tabs' = tabs \o lit
    ELSE (* BuilderPanic / BuildPanic: the builder must never panic *)
         /\ PrintT(<<"MISMATCH", l, ToJson([op |-> ev.ev, expected |-> <<>>])>>)
         /\ UNCHANGED tabs

Next == /\ l <= Len(Rec)
        /\ Step(Rec[l])
        /\ l' = l + 1

Spec == Init /\ [][Next]_vars
AllConsumed == TLCGet("stats").diameter - 1 = Len(Rec)
=============================================================================
