"""Builds, for each case of Gen_OpMatrix.tla, the AST (GarbleSyntax JSON, as GarbleTypes.tla reads it) and the source text."""
T = lambda t: {"k": "int", "t": t}
BOOL = {"k": "bool"}
KINDS = {  # name -> (type JSON, type text, expression JSON, expression text)
    "b": (BOOL, "bool"), "u": (T("u8"), "u8"), "i": (T("i8"), "i8"), "w": (T("u16"), "u16"), "d": (T("i32"), "i32"), "q": (T("u64"), "u64"),
    "z": (T("usize"), "usize"), "a": ({"k": "arr", "e": T("u8"), "n": 2}, "[u8; 2]"), "t": ({"k": "tup", "fs": [T("u8"), BOOL]}, "(u8, bool)"),
    "s": ({"k": "struct", "name": "S"}, "S"), "e": ({"k": "enum", "name": "E"}, "E"), "n": ({"k": "tup", "fs": []}, "()"),
}
LITS = {"lt": ({"k": "true"}, "true"), "lu": ({"k": "num", "v": 1, "ty": T("u8")}, "1u8"), "li": ({"k": "num", "v": -1, "ty": T("i8")}, "-1i8")}
OPS = {"add": "+", "sub": "-", "mul": "*", "div": "/", "mod": "%", "and": "&", "or": "|", "xor": "^", "shl": "<<", "shr": ">>", "lt": "<", "gt": ">",
       "le": "<=", "ge": ">=", "eq": "==", "ne": "!=", "land": "&&", "lor": "||"}
TARGETS = {"bool": BOOL, "u8": T("u8"), "i8": T("i8"), "u16": T("u16"), "i32": T("i32"), "u64": T("u64"), "usize": T("usize")}


def operand(k):
    if k in LITS:
        return LITS[k]
    return {"k": "var", "n": "p_" + k}, "p_" + k


def case(c):
    """c: {form, op, l, r} -> (ast, src)"""
    l, ltxt = operand(c["l"])
    stmts, stxt = [], ""
    if c["form"] == "bin":
        r, rtxt = operand(c["r"])
        e, etxt = {"k": "bin", "op": c["op"], "l": l, "r": r}, "(%s %s %s)" % (ltxt, OPS[c["op"]], rtxt)
    elif c["form"] == "un":
        e, etxt = {"k": "un", "op": c["op"], "e": l}, "(%s%s)" % ("!" if c["op"] == "not" else "-", ltxt)
    elif c["form"] == "cast":
        e, etxt = {"k": "cast", "to": TARGETS[c["op"]], "e": l}, "(%s as %s)" % (ltxt, c["op"])
    elif c["form"] == "postfix":
        op = c["op"]
        if op.startswith("tup"):
            e, etxt = {"k": "tupacc", "e": l, "i": int(op[3:])}, "(%s).%s" % (ltxt, op[3:])
        elif op.startswith("field"):
            e, etxt = {"k": "sacc", "e": l, "f": op[6:]}, "(%s).%s" % (ltxt, op[6:])
        else:
            idx, itxt = {"index0": ({"k": "num", "v": 0, "ty": T("usize")}, "0usize"), "index_u8": ({"k": "num", "v": 0, "ty": T("u8")}, "0u8"), "index_var": ({"k": "var", "n": "p_z"}, "p_z")}[op]
            e, etxt = {"k": "idx", "a": l, "i": idx}, "(%s)[%s]" % (ltxt, itxt)
    elif c["form"] == "match":
        pid = lambda n: {"k": "pid", "n": n}
        pats = {
            "p_true": ({"k": "ptrue"}, "true"),
            "p_u8": ({"k": "pnum", "v": 1, "ty": T("u8")}, "1u8"),
            "p_i8": ({"k": "pnum", "v": -1, "ty": T("i8")}, "-1i8"),
            "p_range_u8": ({"k": "prange", "lo": 1, "hi": 3, "ty": T("u8")}, "1u8..=3u8"),
            "p_range_i16": ({"k": "prange", "lo": -2, "hi": 3, "ty": T("i16")}, "-2i16..=3i16"),
            "p_tuple2": ({"k": "ptup", "ps": [pid("a"), pid("b")]}, "(a, b)"),
            "p_tuple3": ({"k": "ptup", "ps": [pid("a"), pid("b"), pid("c")]}, "(a, b, c)"),
            "p_struct": ({"k": "pstruct", "name": "S", "fs": [{"n": "x", "p": pid("a")}], "rest": False}, "S { x: a }"),
            "p_struct_unknown_field": ({"k": "pstruct", "name": "S", "fs": [{"n": "y", "p": pid("a")}], "rest": False}, "S { y: a }"),
            "p_struct_missing_field": ({"k": "pstruct", "name": "S", "fs": [], "rest": False}, "S { }"),
            "p_enum_unit": ({"k": "penum", "name": "E", "v": "A", "ps": []}, "E::A"),
            "p_enum_tuple": ({"k": "penum", "name": "E", "v": "B", "ps": [pid("a")]}, "E::B(a)"),
            "p_enum_arity": ({"k": "penum", "name": "E", "v": "B", "ps": [pid("a"), pid("b")]}, "E::B(a, b)"),
            "p_enum_unknown": ({"k": "penum", "name": "E", "v": "Z", "ps": []}, "E::Z"),
            "p_binder": (pid("a"), "a"),
        }
        p, ptxt = pats[c["op"]]
        blk = lambda v: {"k": "block", "ss": [{"k": "expr", "e": {"k": v}}]}
        e = {"k": "match", "e": l, "arms": [{"p": p, "b": blk("true")}, {"p": pid("_"), "b": blk("false")}]}
        etxt = "(match %s { %s => true, _ => false })" % (ltxt, ptxt)
    else:  # opassign on a mutable copy of the left operand
        r, rtxt = operand(c["r"])
        stmts = [{"k": "letmut", "n": "m", "e": l}, {"k": "opassign", "n": "m", "acc": [], "op": c["op"], "e": r}]
        stxt = "let mut m = %s; m %s= %s; " % (ltxt, OPS[c["op"]], rtxt)
        e, etxt = None, ""
    if e is not None:
        stmts = [{"k": "let", "p": {"k": "pid", "n": "r"}, "e": e}]
        stxt = "let r = %s; " % etxt
    params = [{"n": "p_" + k, "t": v[0], "mut": False} for k, v in KINDS.items()]
    ast = {"structs": {"_": [], "S": [{"n": "x", "t": T("u8")}]}, "enums": {"_": [], "E": [{"n": "A", "fs": []}, {"n": "B", "fs": [T("u8")]}]},
           "consts": {"_": {"ty": BOOL, "v": 0}},
           "fns": {"main": {"params": params, "ret": BOOL, "pub": True, "body": stmts + [{"k": "expr", "e": {"k": "true"}}]}}}
    src = "struct S { x: u8 }\nenum E { A, B(u8) }\npub fn main(%s) -> bool { %strue }\n" % (", ".join("p_%s: %s" % (k, v[1]) for k, v in KINDS.items()), stxt)
    return ast, src


def run_matrix(run, harness):
    """TLC enumerates the operator x operand-type matrix; every case is rendered, given to the real checker (and compiler if
    accepted) and judged by Trace_Types.tla in both directions.  Returns (events, mismatches, ill-typed indices)."""
    import os
    from vlib import tlc_cases, run_harness, read_ndjson, write_ndjson
    from checks.c17 import validate
    mpath = os.path.join(run.work, "opmatrix.ndjson")
    r, n = tlc_cases("Gen_OpMatrix", "Gen_OpMatrix.cfg", mpath, workers=4, timeout=1200)
    run.add_tlc("Gen_OpMatrix", r)
    cases = []
    for c in read_ndjson(mpath):
        ast, src = case(c)
        cases.append({"id": "matrix-%s-%s-%s-%s" % (c["form"], c["op"], c["l"], c["r"]), "rule": "matrix:" + c["form"], "prog": ast, "src": src})
    cpath = os.path.join(run.work, "opmatrix_cases.ndjson")
    write_ndjson(cpath, cases)
    epath = os.path.join(run.work, "opmatrix_events.ndjson")
    run_harness(harness, ["types-texts", cpath, epath], timeout=3600)
    events = read_ndjson(epath)
    for e in events:
        e["base"] = True          # judged in both directions
    mism, ill = validate(run, events)
    run.cov["operator_matrix_cases"] = len(events)
    run.cov["operator_matrix_ill_typed"] = len(ill)
    return events, mism, ill
