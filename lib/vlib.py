"""Shared orchestration helpers for /verif/bin/check (python3 stdlib only).

Exit codes: 0 = property held on everything explored (known findings are printed and do not
fail), 1 = VIOLATION (a line `VIOLATION property=<id> replay=<path>` was printed),
2 = TOOL-ERROR (our own tooling failed: TLC parse error, harness build failure, timeout).
"""
import hashlib
import json
import os
import re
import shutil
import subprocess
import sys
import time

VERIF = os.path.dirname(os.path.dirname(os.path.abspath(__file__)))
REPO = os.environ.get("VERIF_REPO", "/repo")
SPEC = os.path.join(VERIF, "spec")
WORK = os.path.join(VERIF, "work")
REPLAYS = os.path.join(VERIF, "replays")
EVIDENCE = os.path.join(VERIF, "evidence")
HARNESS_DIR = os.path.join(VERIF, "harness")
TLA_CP = "/opt/veriftools/tla/tla2tools.jar:/opt/veriftools/tla/CommunityModules-deps.jar"
NCPU = os.cpu_count() or 8


class ToolError(Exception):
    pass


def log(*a):
    print(*a, file=sys.stderr, flush=True)


def out(*a):
    print(*a, flush=True)


# ----------------------------------------------------------------------------------------------
# harness


def build_harness():
    """(Re)build the Rust harness against the current /repo working tree."""
    t0 = time.time()
    env = dict(os.environ)
    env["CARGO_NET_OFFLINE"] = "true"
    # the harness manifest has a fixed path dependency on /repo; VERIF_REPO is for self tests
    manifest = os.path.join(HARNESS_DIR, "Cargo.toml")
    if REPO != "/repo":
        # build a throw-away copy of the manifest pointing at the alternative repo
        alt = os.path.join(WORK, "alt_harness_" + hashlib.sha1(REPO.encode()).hexdigest()[:8])
        if not os.path.isdir(alt):
            shutil.copytree(HARNESS_DIR, alt, ignore=shutil.ignore_patterns("target"))
        for root, _, files in os.walk(HARNESS_DIR):
            if "target" in root.split(os.sep):
                continue
            for f in files:
                src = os.path.join(root, f)
                dst = os.path.join(alt, os.path.relpath(src, HARNESS_DIR))
                os.makedirs(os.path.dirname(dst), exist_ok=True)
                shutil.copyfile(src, dst)
        m = open(os.path.join(alt, "Cargo.toml")).read().replace('path = "/repo"', 'path = "%s"' % REPO)
        open(os.path.join(alt, "Cargo.toml"), "w").write(m)
        manifest = os.path.join(alt, "Cargo.toml")
    cwd = os.path.dirname(manifest)
    p = subprocess.run(
        ["cargo", "build", "--release", "--offline", "--manifest-path", manifest],
        cwd=cwd,
        env=env,
        stdout=subprocess.PIPE,
        stderr=subprocess.STDOUT,
        text=True,
    )
    if p.returncode != 0:
        raise ToolError("harness build failed:\n" + p.stdout[-4000:])
    log("[build] harness built in %.1fs" % (time.time() - t0))
    return os.path.join(cwd, "target", "release", "verif_harness")


def run_harness(binary, args, stdin_path=None, stdout_path=None, timeout=3600, env=None):
    e = dict(os.environ)
    if env:
        e.update({k: str(v) for k, v in env.items()})
    fin = open(stdin_path, "rb") if stdin_path else subprocess.DEVNULL
    fout = open(stdout_path, "wb") if stdout_path else subprocess.PIPE
    try:
        p = subprocess.run([binary] + args, stdin=fin, stdout=fout, stderr=subprocess.PIPE, timeout=timeout, env=e)
    except subprocess.TimeoutExpired:
        raise ToolError("harness timed out: %s" % " ".join(args))
    finally:
        if stdin_path:
            fin.close()
        if stdout_path:
            fout.close()
    if p.returncode != 0:
        raise ToolError("harness %s failed rc=%d: %s" % (" ".join(args), p.returncode, p.stderr.decode(errors="replace")[-3000:]))
    return p.stdout.decode() if not stdout_path else ""


# ----------------------------------------------------------------------------------------------
# TLC


class TlcResult:
    def __init__(self):
        self.lines = []
        self.generated = 0
        self.distinct = 0
        self.ok = False
        self.error = None
        self.wall = 0.0
        self.coverage = {}

    def tagged(self, tag):
        """Values printed by PrintT(<<tag, ToJson(x)>>) as parsed JSON, in print order."""
        pre = '<<"%s", "' % tag
        res = []
        for ln in self.lines:
            if ln.startswith(pre) and ln.endswith('">>'):
                inner = ln[len(pre) - 1 : -2]
                try:
                    res.append(json.loads(json.loads(inner)))
                except Exception as ex:  # pragma: no cover
                    raise ToolError("cannot parse TLC line %r: %s" % (ln[:200], ex))
        return res

    def tagged_raw(self, tag):
        pre = '<<"%s"' % tag
        return [ln for ln in self.lines if ln.startswith(pre)]


_metaid = [0]


def tlc(
    module,
    cfg,
    workers=8,
    simulate=None,
    seed=None,
    env=None,
    timeout=3600,
    xmx="6g",
    xss="512m",
    dfs=False,
    coverage=False,
    workdir=None,
    must_succeed=True,
    depth=None,
    line_cb=None,
):
    """Run TLC on spec/<module>.tla with spec/<cfg>.  Returns TlcResult.

    TLC reporting an invariant violation etc. is returned (ok=False, error=text) when
    must_succeed is False; otherwise raises ToolError (our generators/validators are written so
    that a *property* violation never makes TLC itself fail: mismatches are printed and counted).
    """
    _metaid[0] += 1
    wd = workdir or os.path.join(WORK, "tlc_%d_%d" % (os.getpid(), _metaid[0]))
    os.makedirs(wd, exist_ok=True)
    jopts = ["-XX:+UseParallelGC", "-Xmx" + xmx, "-Xss" + xss]
    if dfs:
        jopts.append("-Dtlc2.tool.queue.IStateQueue=StateDeque")
    cmd = ["java"] + jopts + ["-cp", TLA_CP, "tlc2.TLC", "-workers", str(workers), "-metadir", os.path.join(wd, "md"), "-cleanup", "-noGenerateSpecTE"]
    if simulate:
        cmd += ["-simulate", simulate]
    if depth:
        cmd += ["-depth", str(depth)]
    if seed is not None:
        cmd += ["-seed", str(seed)]
    if coverage:
        cmd += ["-coverage", "1"]
    cmd += ["-config", os.path.join(SPEC, cfg), os.path.join(SPEC, module + ".tla")]
    e = dict(os.environ)
    e.pop("JAVA_TOOL_OPTIONS", None)
    if env:
        e.update({k: str(v) for k, v in env.items()})
    t0 = time.time()
    res = TlcResult()
    try:
        p = subprocess.Popen(cmd, cwd=SPEC, env=e, stdout=subprocess.PIPE, stderr=subprocess.STDOUT, text=True, errors="replace")
    except Exception as ex:
        raise ToolError("cannot start TLC: %s" % ex)
    deadline = t0 + timeout
    stopped = False
    err_lines = []
    in_err = False
    try:
        for ln in p.stdout:
            ln = ln.rstrip("\n")
            if line_cb is not None and ln.startswith("<<"):
                cbr = line_cb(ln)
                if cbr == "stop":
                    stopped = True
                    p.kill()
                    break
                if cbr:
                    continue
            res.lines.append(ln)
            if ln.startswith("Error:") or in_err:
                in_err = True
                err_lines.append(ln)
                if len(err_lines) > 60:
                    in_err = False
            m = re.match(r"^(\d+) states generated, (\d+) distinct states found", ln)
            if m:
                res.generated, res.distinct = int(m.group(1)), int(m.group(2))
            m = re.match(r"^The number of states generated: (\d+)", ln)
            if m:
                res.generated = int(m.group(1))
            if time.time() > deadline:
                p.kill()
                raise ToolError("TLC timed out after %ds: %s %s" % (timeout, module, cfg))
        p.wait()
    finally:
        if p.poll() is None:
            p.kill()
        shutil.rmtree(wd, ignore_errors=True)
    res.wall = time.time() - t0
    txt_ok = any("Model checking completed. No error has been found." in l or "Finished computing initial states" in l for l in res.lines)
    if stopped:
        res.ok = not err_lines
    elif simulate:
        # simulation mode ends without the "completed" banner
        res.ok = p.returncode == 0 and not err_lines
    else:
        res.ok = p.returncode == 0 and txt_ok and not err_lines
    if not res.ok:
        res.error = "\n".join(err_lines) or "\n".join(res.lines[-30:])
        if "Parsing or semantic analysis failed" in res.error:
            res.error = "\n".join(l for l in res.lines if not l.startswith(("Parsing file", "Semantic processing", "Linting")))[-3000:]
        if must_succeed:
            raise ToolError("TLC failed on %s/%s (rc=%s):\n%s" % (module, cfg, p.returncode, res.error[-3000:]))
    if coverage:
        res.coverage = parse_coverage(res.lines)
    return res


def parse_coverage(lines):
    """Per-action (distinct:generated) counts from `-coverage 1` output."""
    cov = {}
    for ln in lines:
        m = re.match(r"^<(\w+) line \d+, col \d+ to line \d+, col \d+ of module (\w+)>: (\d+):(\d+)", ln)
        if m:
            cov[m.group(2) + "." + m.group(1)] = {"distinct": int(m.group(3)), "generated": int(m.group(4))}
    return cov


def sany(module):
    p = subprocess.run(["java", "-cp", TLA_CP, "tla2sany.SANY", os.path.join(SPEC, module + ".tla")], cwd=SPEC, stdout=subprocess.PIPE, stderr=subprocess.STDOUT, text=True)
    ok = p.returncode == 0 and "Semantic errors" not in p.stdout and "***Parse Error***" not in p.stdout and "Fatal errors" not in p.stdout
    return ok, p.stdout


# ----------------------------------------------------------------------------------------------
# known findings


def load_known():
    p = os.path.join(VERIF, "known_findings.json")
    if not os.path.exists(p):
        return []
    return json.load(open(p))["findings"]


def sha(obj):
    return hashlib.sha256(json.dumps(obj, sort_keys=True, separators=(",", ":")).encode()).hexdigest()[:16]


# ----------------------------------------------------------------------------------------------
# a check run


class Run:
    def __init__(self, pid, tier, seed, level="model_checking"):
        self.pid = pid
        self.tier = tier
        self.seed = seed
        self.level = level
        self.t0 = time.time()
        self.violations = []  # (key, replay_path)
        self.known_hits = []
        self.cov = {
            "states": 0,
            "transitions": 0,
            "traces_validated_against_impl": 0,
            "samples": [],
            "evaluations": 0,
            "distinct_nontrivial": 0,
            "rule": "",
            "exhaustive": False,
            "tlc_runs": [],
            "out_of_model": 0,
            "model_drift": 0,
            "known_findings": [],
            "guards_active": [],
        }
        self.assumptions = []
        self.known = [k for k in load_known() if k["property"] == pid]
        os.makedirs(WORK, exist_ok=True)
        os.makedirs(REPLAYS, exist_ok=True)
        os.makedirs(EVIDENCE, exist_ok=True)
        self.work = os.path.join(WORK, "%s_%d" % (pid, os.getpid()))
        shutil.rmtree(self.work, ignore_errors=True)
        os.makedirs(self.work)

    # -- bookkeeping
    def add_tlc(self, name, res):
        self.cov["states"] += res.distinct
        self.cov["transitions"] += res.generated
        self.cov["tlc_runs"].append({"spec": name, "generated": res.generated, "distinct": res.distinct, "wall_s": round(res.wall, 1)})

    def sample(self, x, limit=6):
        if len(self.cov["samples"]) < limit:
            self.cov["samples"].append(x)

    def open_known(self, key, signature=None):
        for k in self.known:
            if k.get("status") != "open":
                continue
            if key in k.get("keys", []) or (signature is not None and k.get("signature") == signature):
                return k
        return None

    def known_hit(self, signature, example=None):
        """Record a failure that a classifier attributes to an open known finding.  Returns True
        if such an open finding exists (then the failure is not a violation)."""
        k = self.open_known(None, signature)
        if k is None:
            return False
        if signature not in [h[0] for h in self.known_hits]:
            self.known_hits.append((signature, k["what"]))
            out("KNOWN-FINDING: property=%s %s" % (self.pid, k["what"]))
        return True

    def fail(self, key, what, replay_obj, signature=None):
        """Report one failing object.  `key` identifies the failure narrowly (see DESIGN §7)."""
        k = self.open_known(key, signature)
        if k is not None:
            tag = signature or key
            if tag not in [h[0] for h in self.known_hits]:
                self.known_hits.append((tag, k["what"]))
                out("KNOWN-FINDING: property=%s %s" % (self.pid, k["what"]))
            return False
        if key in [v[0] for v in self.violations]:
            return True
        if len(self.violations) >= 25:
            self.violations.append((key, None))
            return True
        path = os.path.join(REPLAYS, "%s-%s.json" % (self.pid, sha([key, replay_obj])))
        replay_obj = dict(replay_obj)
        replay_obj["property"] = self.pid
        replay_obj["key"] = key
        replay_obj["what"] = what
        with open(path, "w") as f:
            json.dump(replay_obj, f, indent=1)
        self.violations.append((key, path))
        out("VIOLATION property=%s replay=%s" % (self.pid, path))
        log("  -> %s: %s" % (key, what))
        return True

    def finish(self):
        self.cov["known_findings"] = [k for k, _ in self.known_hits]
        ev = {
            "property_id": self.pid,
            "tier": self.tier,
            "seed": self.seed,
            "level": self.level,
            "coverage": self.cov,
            "assumptions": self.assumptions,
            "wall_s": round(time.time() - self.t0, 2),
            "violations": len(self.violations),
        }
        if self.cov["states"] < 1:
            self.cov["states"] = 0
        with open(os.path.join(EVIDENCE, self.pid + ".json"), "w") as f:
            json.dump(ev, f, indent=1)
        shutil.rmtree(self.work, ignore_errors=True)
        log("[%s] tier=%s seed=%d wall=%.1fs states=%d transitions=%d validated=%d violations=%d known=%d" % (self.pid, self.tier, self.seed, ev["wall_s"], self.cov["states"], self.cov["transitions"], self.cov["traces_validated_against_impl"], len(self.violations), len(self.known_hits)))
        return 1 if self.violations else 0


def write_ndjson(path, objs):
    with open(path, "w") as f:
        for o in objs:
            f.write(json.dumps(o, separators=(",", ":")))
            f.write("\n")


def read_ndjson(path):
    res = []
    with open(path) as f:
        for ln in f:
            ln = ln.strip()
            if ln:
                res.append(json.loads(ln))
    return res


def chunks(seq, n):
    for i in range(0, len(seq), n):
        yield seq[i : i + n]


def parallel_tlc(jobs, maxpar=8):
    """jobs: list of kwargs dicts for tlc(); run up to maxpar at once (threads)."""
    import concurrent.futures as cf

    with cf.ThreadPoolExecutor(max_workers=maxpar) as ex:
        futs = [ex.submit(lambda kw=kw: tlc(**kw)) for kw in jobs]
        return [f.result() for f in futs]


MIS_RE = re.compile(r'^<<"MISMATCH", (\d+), (".*")>>$')


def validate_trace(run, module, cfg, events, chunk=20000, maxpar=8, env=None, timeout=3600, xmx="3g"):
    """Validate recorded events against a Trace_* spec.  Returns [(event_index, detail_json)].

    The trace spec consumes every line (a mismatch never blocks it) and prints
    <<"MISMATCH", line, json>>; the POSTCONDITION fails (=> ToolError) if it got stuck.
    """
    if not events:
        return []
    jobs = []
    offs = []
    for ci, part in enumerate(chunks(events, chunk)):
        path = os.path.join(run.work, "trace_%s_%d_%d.ndjson" % (module, len(run.cov["tlc_runs"]), ci))
        write_ndjson(path, part)
        e = {"TRACE": path}
        if env:
            e.update(env)
        jobs.append(dict(module=module, cfg=cfg, workers=1, dfs=True, env=e, timeout=timeout, xmx=xmx))
        offs.append(ci * chunk)
    results = parallel_tlc(jobs, maxpar=maxpar)
    mism = []
    gen = dist = 0
    wall = 0.0
    for off, r in zip(offs, results):
        gen += r.generated
        dist += r.distinct
        wall = max(wall, r.wall)
        for ln in r.lines:
            m = MIS_RE.match(ln)
            if m:
                mism.append((off + int(m.group(1)) - 1, json.loads(json.loads(m.group(2)))))
    run.cov["states"] += dist
    run.cov["transitions"] += gen
    run.cov["tlc_runs"].append({"spec": module, "generated": gen, "distinct": dist, "wall_s": round(wall, 1), "events": len(events)})
    run.cov["traces_validated_against_impl"] += len(events)
    return mism


def tlc_cases(module, cfg, out_path, tag="CASE", max_cases=None, **kw):
    """Run a generator spec and stream its PrintT(<<tag, ToJson(x)>>) lines into an ndjson file.
    Returns (TlcResult, number of cases).  -simulate output may contain duplicates: de-duplicated."""
    pre = '<<"%s", "' % tag
    n = [0]
    seen = set() if kw.get("simulate") else None
    with open(out_path, "w") as f:

        def cb(ln):
            if ln.startswith(pre) and ln.endswith('">>'):
                s = json.loads(ln[len(pre) - 1 : -2])
                if seen is not None:
                    h = hashlib.sha1(s.encode()).digest()
                    if h in seen:
                        return True
                    seen.add(h)
                if max_cases is not None and n[0] >= max_cases:
                    return "stop"
                f.write(s)
                f.write("\n")
                n[0] += 1
                return True
            return False

        r = tlc(module, cfg, line_cb=cb, **kw)
    return r, n[0]
