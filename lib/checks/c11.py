"""C11 - Bristol export/import preserves the function; malformed files are rejected."""
from vlib import *


def run(run, harness, replay=None):
    tier = run.tier
    run.cov["rule"] = (
        "design: BristolIO.tla transcribes format_as_bristol (strip panic outputs, de-alias repeated outputs, renumber so outputs are last) and TLC checks "
        "WellFormedBristol and function equality on every small SSA circuit; spec->impl: each enumerated circuit goes through the real exporter and importer; "
        "impl->spec: the written file (parsed row by row) and the re-imported circuit are judged by Trace_Bristol.tla (counts, every wire assigned once and "
        "before use, outputs last in order, EvalBristol = SSA eval on all inputs, re-import equal), also for compiled corpus programs; importer totality: TLC "
        "enumerates the edit space of a Bristol text (token substitutions incl. 2^31, 2^64-1, 2^64, -1, non-numbers, unknown gates, and the boundary values W-1, W, W+1, G, G+1 relative to the declared wire and gate counts of the file; field/line insert, drop, "
        "duplicate, swap, truncate) applied to three base exports. Non-trivial = exportable circuits with at least one repeated or constant-like output gate."
    )
    events, edits_res = [], []
    if replay:
        if "event" in replay:
            cpath = os.path.join(run.work, "cases.ndjson")
            write_ndjson(cpath, [{"ssa": replay["event"]["ssa"], "exportable": replay["event"]["exportable"]}])
            epath = os.path.join(run.work, "ev.ndjson")
            run_harness(harness, ["bristol-roundtrip", cpath, epath], env={"VERIF_TMP": run.work})
            events = read_ndjson(epath)
        else:
            cpath = os.path.join(run.work, "edits.ndjson")
            write_ndjson(cpath, [replay["edit"]])
            rpath = os.path.join(run.work, "edits.res")
            run_harness(harness, ["bristol-mutate", cpath, rpath], env={"VERIF_TMP": run.work})
            edits_res = read_ndjson(rpath)
    else:
        cfg = "MC_Bristol_quick.cfg" if tier == "quick" else "MC_Bristol_thorough.cfg"
        cpath = os.path.join(run.work, "cases.ndjson")
        if tier == "thorough":
            # the design check covers the whole bound; the circuits handed to the real exporter are capped (breadth-first order)
            rmc = tlc("MC_Bristol", "MC_Bristol_thorough_mc.cfg", workers=8, timeout=6000, xmx="8g")
            run.add_tlc("MC_Bristol/design", rmc)
        r, n = tlc_cases("MC_Bristol", cfg, cpath, workers=8, timeout=3000, xmx="8g", max_cases=None if tier == "quick" else 250000)
        run.add_tlc("MC_Bristol/" + cfg, r)
        run.cov["emitted_cases"] = n
        run.cov["exhaustive"] = tier == "quick" or n < 250000
        epath = os.path.join(run.work, "ev.ndjson")
        run_harness(harness, ["bristol-roundtrip", cpath, epath], env={"VERIF_TMP": run.work})
        events = read_ndjson(epath)
        ppath = os.path.join(run.work, "corpus_ev.ndjson")
        run_harness(harness, ["bristol-corpus", os.path.join(VERIF, "corpus"), ppath, "40" if tier == "quick" else "400"], env={"VERIF_TMP": run.work})
        events += read_ndjson(ppath)
        # importer totality
        dpath = os.path.join(run.work, "edits.ndjson")
        r, n = tlc_cases("Gen_BristolEdits", "Gen_BristolEdits.cfg", dpath, workers=4, timeout=600)
        run.add_tlc("Gen_BristolEdits", r)
        rpath = os.path.join(run.work, "edits.res")
        run_harness(harness, ["bristol-mutate", dpath, rpath], env={"VERIF_TMP": run.work})
        edits_res = read_ndjson(rpath)
    run.cov["evaluations"] += len(events)
    run.cov["model_drift"] = len([e for e in events if e.get("drift")])
    if run.cov["model_drift"]:
        out("MODEL-DRIFT: %d exported files differ textually from BristolIO.tla's Export (not an alarm)" % run.cov["model_drift"])
    run.cov["distinct_nontrivial"] += len([e for e in events if e["exportable"] and len(set(e["ssa"]["outputs"])) < len(e["ssa"]["outputs"])])
    for e in events[:1]:
        run.sample({"ssa": e["ssa"], "text": e.get("text")})
    slim = [{k: v for k, v in e.items() if k not in ("text", "drift", "file_name", "msg")} for e in events]
    mism = validate_trace(run, "Trace_Bristol", "Trace_Bristol.cfg", slim, chunk=max(2000, len(slim) // 8 + 1))
    for idx, detail in mism:
        e = events[idx]
        run.fail("bristol:" + ",".join(detail) + ":" + sha(e["ssa"]), "Bristol export/import violates %s for circuit %s; file:\n%s" % (detail, json.dumps(e["ssa"])[:300], (e.get("text") or "")[:400]), {"event": {k: v for k, v in e.items() if k != "text"}, "observed": detail})
    groups = {}
    for x in edits_res:
        if x.get("summary"):
            run.cov["evaluations"] += x["n"]
            run.cov["traces_validated_against_impl"] += x["n"]
        else:
            msg = x["observed"].get("msg", x["observed"].get("status", "?"))
            sig = "importer-panic:" + re.sub(r"\d+", "N", msg)[:80]
            groups.setdefault(sig, []).append(x)
    for sig, items in sorted(groups.items()):
        w = items[0]
        run.fail(sig, "importer crashes on %d perturbed files, e.g. edit %s:\n%s-> %s" % (len(items), json.dumps(w["edit"]), w["text"][:300], json.dumps(w["observed"])[:200]), {"edit": w["edit"], "base": w["base"], "text": w["text"], "observed": w["observed"], "count": len(items)})
