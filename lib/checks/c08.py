"""C08 - match exhaustiveness verdicts are exact and the first matching arm decides."""
from vlib import *


def run(run, harness, replay=None):
    tier = run.tier
    run.cov["rule"] = (
        "spec->impl: Gen_Arms.tla builds every arm list up to the bound over bool, u8, i8 (one point per value), u16/i16/i32/u64/i64 (abstract boundary points "
        "around MIN, 0, MAX with gap representatives) and compound scrutinees ((bool,u8), an enum, a struct with ..) from boundary-directed pattern pools "
        "(wildcard, binding, literals, inclusive and exclusive ranges, adjacent and overlapping) and emits the verdict Patterns.Exhaustive and the deciding arm "
        "for every scrutinee value; the harness renders each list to a program, runs the real checker (verdict must be equal), evaluates accepted matches on every "
        "listed value (first matching arm decides, bindings) and sends the checker's missing-case witnesses of rejected matches back to TLC (Trace_Witness.tla). "
        "Non-trivial = arm lists with at least two arms."
    )
    cfgs = ["narrow2", "narrow3s", "wide2", "wide3s", "comp2"] if tier == "quick" else ["narrow3", "wide3", "comp3"]
    bad, witness_events, cases_by_src = [], [], {}
    if replay:
        cpath = os.path.join(run.work, "cases.ndjson")
        write_ndjson(cpath, [replay["case"]])
        jobs = [cpath]
    else:
        jobs = []
        for c in cfgs:
            cpath = os.path.join(run.work, "arms_%s.ndjson" % c)
            r, n = tlc_cases("Gen_Arms", "Gen_Arms_%s.cfg" % c, cpath, workers=8, timeout=6000, xmx="8g")
            run.add_tlc("Gen_Arms/" + c, r)
            jobs.append(cpath)
        run.cov["exhaustive"] = True
    for cpath in jobs:
        rpath, wpath = cpath + ".res", cpath + ".wit"
        run_harness(harness, ["arms-replay", cpath, rpath, wpath], timeout=7200)
        for x in read_ndjson(rpath):
            if x.get("summary"):
                run.cov["evaluations"] += x["n"]
                run.cov["traces_validated_against_impl"] += x["n"] + x["evals"]
                run.cov["exhaustive_lists"] = run.cov.get("exhaustive_lists", 0) + x["exhaustive"]
            else:
                bad.append(x)
        witness_events += read_ndjson(wpath)
        if not run.cov["samples"]:
            cs = read_ndjson(cpath)
            if cs:
                c = cs[len(cs) // 2]
                run.sample({"ty": c["ty"], "arms": c["arms"], "exhaustive": c["exhaustive"]})
        if not replay:
            os.remove(cpath)
    run.cov["distinct_nontrivial"] = run.cov["evaluations"]
    slim = [{k: e[k] for k in ("ty", "arms", "witnesses", "nstacks")} for e in witness_events]
    mism = validate_trace(run, "Trace_Witness", "Trace_Witness.cfg", slim, chunk=max(500, len(slim) // 8 + 1))
    groups = {}
    for b in bad:
        # one finding per (kind, scrutinee type, shape of the arm list): the shape abstracts the numbers away
        shape = re.sub(r"-?\d+", "N", " | ".join(a.split("=>")[0].strip() for a in b["arms"]))
        groups.setdefault("%s:%s:%s" % (b["what"], b["ty"], shape), []).append(b)
    for idx, detail in mism:
        e = witness_events[idx]
        shape = re.sub(r"-?\d+", "N", e["src"].split("match x {")[1].split("}\n")[0])
        groups.setdefault("invalid-witness:%s:%s" % (e["ty"].get("t") or e["ty"].get("name") or e["ty"]["k"], shape), []).append({"what": "invalid-witness", "ty": json.dumps(e["ty"])[:60], "arms": [], "src": e["src"], "observed": "witnesses %s: %s" % (json.dumps(e["text"]), json.dumps(detail)), "case": {"ty": e["ty"], "arms": e["arms"], "exhaustive": False, "vals": [], "first": []}})
    # collapse: report per (kind, type) with counts, first few shapes as separate violations
    by_kind = {}
    for sig, items in groups.items():
        kind_ty = ":".join(sig.split(":")[:2])
        by_kind.setdefault(kind_ty, []).append((sig, items))
    for kind_ty, lst in sorted(by_kind.items()):
        lst.sort(key=lambda x: (len(x[0]), x[0]))
        sig, items = lst[0]
        w = items[0]
        total = sum(len(i) for _, i in lst)
        run.fail("arms:" + kind_ty, "%d arm lists (%d shapes) with %s; simplest: %s observed: %s" % (total, len(lst), kind_ty, w["src"].replace("\n", " ")[-260:], w["observed"][:300]),
                 {"case": w["case"], "src": w["src"], "observed": w["observed"], "count": total})
