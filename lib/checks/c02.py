"""C02 - panic iff the source semantics fail; first failure wins; untaken code is silent."""
from evalcheck import *

RULE = ("design: PanicRecord.tla (running panic record with its condition cache, driven as compile.rs does for sequences, if/else, && and ||) checked by TLC: FirstFailureWins and PanicMonotone hold for every well-bracketed panic skeleton of the bound, the superseded cache schemes are refuted negative controls; spec->impl: every skeleton is rendered to a program (conditions = Boolean parameters, repeated conditions = repeated wires) and evaluated in every world; impl->spec: failing-site-dense random programs (arithmetic on full-range 8/16-bit inputs, divisions, shifts by input amounts, input-dependent indices, "
        "failing operations inside branches, arms, short-circuited operands, loops and callees) plus regression witnesses; every run judged by Trace_Eval.tla: "
        "panic flag iff GarbleSem.Run fails, reason equal, reported span = span of an admissible first failing operation, no panic otherwise. "
        "Non-trivial = programs whose observed outputs differ between two runs.")


def render_skeleton(prog, nconds):
    """a panic skeleton of PanicRecord.tla as a Garble program: conditions are Boolean parameters, a site is an
    operation that fails iff its condition is true (index 1 of a one-element array / division by zero)"""
    # closing tokens need the kind of the construct they close
    text, stack, n = [], [], 0
    for x in prog:
        op, c = x["op"], x["c"]
        n += 1
        if op == "site":
            text.append("let s%d = arr[(c%d as usize)];" % (n, c) if x["k"] == "oob" else "let s%d = v / ((!c%d) as u8);" % (n, c))
        elif op == "if":
            text.append("if c%d {" % c)
            stack.append("if")
        elif op == "else":
            text.append("} else {")
        elif op in ("and", "or"):
            text.append("let b%d = c%d %s ({" % (n, c, "&&" if op == "and" else "||"))
            stack.append(op)
        elif op == "match":
            text.append("match (c1, c2) { (true, _) => {")
            stack.append("match1")
        elif op == "arm":
            k = stack.pop()
            text.append("}, (false, true) => {" if k == "match1" else "}, _ => {")
            stack.append("match2" if k == "match1" else "match3")
        else:
            k = stack.pop()
            text.append("}" if k == "if" else ("} }" if k.startswith("match") else ("true });" if k == "and" else "false });")))
    params = ", ".join("c%d: bool" % i for i in range(1, nconds + 1))
    return "pub fn main(%s, arr: [u8; 1], v: u8) -> u8 { %s v }" % (params, " ".join(text))


def skeletons(run, harness):
    """design check of the panic record (fixed scheme holds, superseded schemes refuted) and replay of every skeleton"""
    tier = run.tier
    r = tlc("PanicRecord", "PanicRecord_fixed.cfg" if tier == "quick" else "PanicRecord_fixed_thorough.cfg", workers=6, timeout=3000, xmx="16g")
    run.add_tlc("PanicRecord/fixed", r)
    for sc in ("restore", "union"):
        r2 = tlc("PanicRecord", "PanicRecord_%s.cfg" % sc, workers=2, timeout=600, must_succeed=False)
        run.add_tlc("PanicRecord/negative-control-" + sc, r2)
        if r2.ok:
            raise ToolError("negative control %s of PanicRecord.tla unexpectedly passes (vacuity)" % sc)
    spath = os.path.join(run.work, "skeletons.ndjson")
    r, cnt = tlc_cases("PanicRecord", "PanicRecord_gen_%s.cfg" % tier, spath, workers=4, timeout=3000, max_cases=40000)
    run.add_tlc("PanicRecord/emit", r)
    # longer skeletons: random walks through the same machine (the invariant is checked on every walk as well)
    spath2 = os.path.join(run.work, "skeletons_sim.ndjson")
    r, cnt2 = tlc_cases("PanicRecord", "PanicRecord_sim.cfg", spath2, workers=4, timeout=3000, simulate="num=%d" % (2500 if tier == "quick" else 40000), depth=60, seed=int(run.seed) + 1,
                        max_cases=3000 if tier == "quick" else 40000)
    run.add_tlc("PanicRecord/simulate", r)
    cases = []
    for i, c in enumerate(read_ndjson(spath) + read_ndjson(spath2)):
        n = c["nconds"]
        worlds = [[(w >> j) & 1 for j in range(n)] + [[7], 9] for w in range(2 ** n)]
        cases.append({"id": "skeleton-%d" % i, "src": render_skeleton(c["prog"], n), "inputs": worlds})
    run.cov["panic_skeletons"] = len(cases)
    cpath = os.path.join(run.work, "skeleton_cases.ndjson")
    write_ndjson(cpath, cases)
    events = record(run, harness, [["eval-file", cpath, "@OUT"]])
    for e in events:
        if e["ev"] != "Eval":     # skeletons are well-typed programs: rejection or a compiler panic is an observation about the compiler
            run.fail("skeleton-compile:" + sha(e.get("src", "")), "panic skeleton is rejected or crashes the compiler: %s" % json.dumps(e)[:600], {"id": e.get("id"), "src": e.get("src"), "inputs": [], "observed": e.get("msg")})
    judge(run, events)


def run(run, harness, replay=None):
    if not replay:
        skeletons(run, harness)
    quick = [["eval-gen", "@OUT", "1200", "8", "panic"], ["eval-gen", "@OUT", "300", "8", "panic", "effects"]]
    thorough = [["eval-gen", "@OUT", "15000", "12", "panic"], ["eval-gen", "@OUT", "4000", "12", "panic", "effects"], ["eval-corpus", os.path.join(VERIF, "corpus"), "@OUT", "400", "12"]]
    run_eval_check(run, harness, replay, quick, thorough, RULE)
