"""C02 - panic iff the source semantics fail; first failure wins; untaken code is silent."""
from evalcheck import *

RULE = ("impl->spec: failing-site-dense random programs (arithmetic on full-range 8/16-bit inputs, divisions, shifts by input amounts, input-dependent indices, "
        "failing operations inside branches, arms, short-circuited operands, loops and callees) plus regression witnesses; every run judged by Trace_Eval.tla: "
        "panic flag iff GarbleSem.Run fails, reason equal, reported span = span of an admissible first failing operation, no panic otherwise. "
        "Non-trivial = programs whose observed outputs differ between two runs.")


def run(run, harness, replay=None):
    quick = [["eval-gen", "@OUT", "1200", "8", "panic"], ["eval-gen", "@OUT", "300", "8", "panic", "effects"]]
    thorough = [["eval-gen", "@OUT", "15000", "12", "panic"], ["eval-gen", "@OUT", "4000", "12", "panic", "effects"], ["eval-corpus", os.path.join(VERIF, "corpus"), "@OUT", "400", "12"]]
    run_eval_check(run, harness, replay, quick, thorough, RULE)
