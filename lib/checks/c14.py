"""C14 - no shared mutable state: copies independent, control flow merges variables right."""
from evalcheck import *

RULE = ("impl->spec: mutation-heavy random programs (let mut / assignment / op-assignment through nested array, tuple and struct accessors with constant and "
        "input-dependent indices, inside nested blocks, branches, arms, loops and called functions with mut parameters, shadowing incl. of constants, loop "
        "bodies that assign to an outer variable and then shadow it) whose main returns every variable in scope; every run judged by Trace_Eval.tla against "
        "GarbleSem.tla's explicit scope stack. Non-trivial = programs whose observed outputs differ between two runs.")


def run(run, harness, replay=None):
    quick = [["eval-gen", "@OUT", "1200", "6", "mutation"], ["eval-gen", "@OUT", "400", "6", "mutation", "effects"]]
    thorough = [["eval-gen", "@OUT", "15000", "10", "mutation"], ["eval-gen", "@OUT", "5000", "10", "mutation", "effects"]]
    run_eval_check(run, harness, replay, quick, thorough, RULE)
