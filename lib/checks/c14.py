"""C14 - no shared mutable state: copies independent, control flow merges variables right."""
from evalcheck import *

RULE = ("design: CompileScheme.tla (environment threading of the compiler: clone + mux for if and &&, scope per block and per loop iteration) checked by TLC: SchemeRefinesSem for every well-formed environment skeleton of the bound, the superseded schemes (shared loop scope, && without mux) are refuted negative controls; spec->impl: every skeleton rendered to a program returning (a, b) and evaluated in every world; impl->spec: mutation-heavy random programs (let mut / assignment / op-assignment through nested array, tuple and struct accessors with constant and "
        "input-dependent indices, inside nested blocks, branches, arms, loops and called functions with mut parameters, shadowing incl. of constants, loop "
        "bodies that assign to an outer variable and then shadow it) whose main returns every variable in scope; every run judged by Trace_Eval.tla against "
        "GarbleSem.tla's explicit scope stack. Non-trivial = programs whose observed outputs differ between two runs.")


def render_skeleton(prog, nconds):
    """an environment skeleton of CompileScheme.tla as a Garble program that returns (a, b)"""
    text, stack = [], []
    for i, x in enumerate(prog, start=1):
        op, v, c = x["op"], x["x"], x["c"]
        other = "b" if v == "a" else "a"
        if op == "let":
            text.append("let %s = %du8;" % (v, 10 + i))
        elif op == "letmut":
            text.append("let mut %s = %du8;" % (v, 10 + i))
        elif op == "asg":
            text.append("%s = %du8;" % (v, 10 + i))
        elif op == "cpy":
            text.append("%s = %s;" % (v, other))
        elif op == "callc":
            text.append("%s = h(%s);" % (v, v))
        elif op == "blk":
            text.append("{")
            stack.append("blk")
        elif op == "loop":
            text.append("for i%d in [0u8, 1u8] {" % i)
            stack.append("loop")
        elif op == "if":
            text.append("if c%d {" % c)
            stack.append("if")
        elif op == "else":
            text.append("} else {")
        elif op == "and":
            text.append("let t%d = c%d && ({" % (i, c))
            stack.append("and")
        elif op == "match":
            text.append("match (c1, c2) { (true, _) => {")
            stack.append("match1")
        elif op == "arm":
            k = stack.pop()
            text.append("}, (false, true) => {" if k == "match1" else "}, _ => {")
            stack.append("match2" if k == "match1" else "match3")
        else:
            k = stack.pop()
            text.append("true });" if k == "and" else ("} }" if k.startswith("match") else "}"))
    params = ", ".join("c%d: bool" % i for i in range(1, nconds + 1))
    # the constant a (7) is shadowed by main's variable a; the helper h reads the constant
    prelude = "const a: u8 = 7u8;\nfn h(p: u8) -> u8 { a }\n" if any(x["op"] == "callc" for x in prog) else ""
    return prelude + "pub fn main(%s, v: u8) -> (u8, u8) { let mut a = 1u8; let mut b = 2u8; %s (a, b) }" % (params, " ".join(text))


def skeletons(run, harness):
    """design check of the compile scheme (fixed scheme refines the sequential semantics, superseded schemes refuted) and
    replay of every environment skeleton into the real compiler"""
    tier = run.tier
    r = tlc("CompileScheme", "CompileScheme_fixed.cfg" if tier == "quick" else "CompileScheme_fixed_thorough.cfg", workers=6, timeout=6000, xmx="16g")
    run.add_tlc("CompileScheme/fixed", r)
    for sc in ("loop-shared", "and-no-mux", "call-sees-caller"):
        r2 = tlc("CompileScheme", "CompileScheme_%s.cfg" % sc, workers=2, timeout=900, must_succeed=False)
        run.add_tlc("CompileScheme/negative-control-" + sc, r2)
        if r2.ok:
            raise ToolError("negative control %s of CompileScheme.tla unexpectedly passes (vacuity)" % sc)
    spath = os.path.join(run.work, "skeletons.ndjson")
    r, cnt = tlc_cases("CompileScheme", "CompileScheme_gen_%s.cfg" % tier, spath, workers=4, timeout=3000, max_cases=60000)
    run.add_tlc("CompileScheme/emit", r)
    # longer skeletons: random walks through the same machine (the invariant is checked on every walk as well)
    spath2 = os.path.join(run.work, "skeletons_sim.ndjson")
    r, cnt2 = tlc_cases("CompileScheme", "CompileScheme_sim.cfg", spath2, workers=4, timeout=3000, simulate="num=%d" % (2500 if tier == "quick" else 40000), depth=60, seed=int(run.seed) + 1,
                        max_cases=3000 if tier == "quick" else 40000)
    run.add_tlc("CompileScheme/simulate", r)
    cases = []
    for i, c in enumerate(read_ndjson(spath) + read_ndjson(spath2)):
        n = c["nconds"]
        worlds = [[(w >> j) & 1 for j in range(n)] + [0] for w in range(2 ** n)]
        cases.append({"id": "envskel-%d" % i, "src": render_skeleton(c["prog"], n), "inputs": worlds})
    run.cov["environment_skeletons"] = len(cases)
    cpath = os.path.join(run.work, "skeleton_cases.ndjson")
    write_ndjson(cpath, cases)
    events = record(run, harness, [["eval-file", cpath, "@OUT"]])
    for e in events:
        if e["ev"] != "Eval":     # skeletons are well-typed programs: rejection or a compiler panic is an observation about the compiler
            run.fail("skeleton-compile:" + sha(e.get("src", "")), "environment skeleton is rejected or crashes the compiler: %s" % json.dumps(e)[:600], {"id": e.get("id"), "src": e.get("src"), "inputs": [], "observed": e.get("msg")})
    judge(run, events)


def run(run, harness, replay=None):
    if not replay:
        skeletons(run, harness)
    quick = [["eval-gen", "@OUT", "1200", "6", "mutation"], ["eval-gen", "@OUT", "400", "6", "mutation", "effects"]]
    thorough = [["eval-gen", "@OUT", "15000", "10", "mutation"], ["eval-gen", "@OUT", "5000", "10", "mutation", "effects"]]
    run_eval_check(run, harness, replay, quick, thorough, RULE)
