"""C17 - ill-typed programs are rejected: every static rule violation is a type error."""
from vlib import *

ILL_RE = re.compile(r'^<<"ILL", (\d+)>>$')


def validate(run, events):
    """TLC judges every event with GarbleTypes.WellTyped; returns (mismatches, set of ill-typed indices)"""
    slim = [{k: e[k] for k in ("id", "rule", "base", "prog", "accepted", "panic", "roundtrip")} for e in events]
    chunk = max(300, len(slim) // 8 + 1)
    jobs, offs = [], []
    for ci, part in enumerate(chunks(slim, chunk)):
        path = os.path.join(run.work, "types_%d_%d.ndjson" % (len(run.cov["tlc_runs"]), ci))
        write_ndjson(path, part)
        jobs.append(dict(module="Trace_Types", cfg="Trace_Types.cfg", workers=1, dfs=True, env={"TRACE": path}, timeout=7200, xmx="3g", xss="1g"))
        offs.append(ci * chunk)
    mism, ill, gen, dist, wall = [], set(), 0, 0, 0.0
    for off, r in zip(offs, parallel_tlc(jobs, maxpar=8)):
        gen += r.generated
        dist += r.distinct
        wall = max(wall, r.wall)
        for ln in r.lines:
            m = MIS_RE.match(ln)
            if m:
                mism.append((off + int(m.group(1)) - 1, json.loads(json.loads(m.group(2)))))
                continue
            m = ILL_RE.match(ln)
            if m:
                ill.add(off + int(m.group(1)) - 1)
    run.cov["states"] += dist
    run.cov["transitions"] += gen
    run.cov["tlc_runs"].append({"spec": "Trace_Types", "generated": gen, "distinct": dist, "wall_s": round(wall, 1), "events": len(events)})
    run.cov["traces_validated_against_impl"] += len(events)
    return mism, ill


def run(run, harness, replay=None):
    tier = run.tier
    run.cov["rule"] = (
        "GarbleTypes.tla re-derives all types of a program from its declarations and literal suffixes and checks the documented static rules; generated "
        "well-typed, fully annotated programs are projected to ASTs and every applicable site receives every rule-breaking edit (operand / argument / return / "
        "branch type changes, non-Boolean condition, Boolean operator on numbers, unknown identifier / function / field / variant, assignment to a non-mut "
        "binding, missing / extra / duplicated arguments and fields, variant arity, tuple index out of range, refutable pattern in let / for, direct and mutual "
        "recursion, unused private fn, pub fn without parameters, negation of unsigned, index not usize), plus pairs of edits in thorough; the mutant is "
        "rendered to text (print -> parse -> project must reproduce the AST) and given to the real checker; TLC (Trace_Types.tla) keeps only mutants that "
        "WellTyped rejects and demands rejection. Non-trivial = mutants the specification judges ill-typed."
    )
    if replay:
        events = [replay["event"]]
    else:
        tp = os.path.join(run.work, "mutants.ndjson")
        run_harness(harness, ["types-mutants", tp, "120" if tier == "quick" else "2500", "0" if tier == "quick" else "1"], env={"VERIF_SEED": run.seed}, timeout=7200)
        events = read_ndjson(tp)
    if not replay:
        # the operator x operand-type matrix (Gen_OpMatrix.tla): ill-typed applications must be rejected
        from opmatrix import run_matrix
        mev, mmism, mill = run_matrix(run, harness)
        mg = {}
        for idx, detail in mmism:
            if detail[0] in ("ill_typed_program_accepted", "checker_panics_on_ill_typed_program"):
                mg.setdefault((detail[0], mev[idx]["id"].split("-")[1], mev[idx]["id"].split("-")[2]), []).append(mev[idx])
        for (what, form, op), items in sorted(mg.items()):
            e = items[0]
            run.fail("matrix:%s:%s:%s" % (what, form, op), "%d applications of %s %s: %s; first:\n%s" % (len(items), form, op, what, e["src"]),
                     {"event": {k: e[k] for k in ("ev", "id", "rule", "base", "prog", "accepted", "panic", "roundtrip", "src")}, "count": len(items)})
    types = [e for e in events if e["ev"] == "Types"]
    run.cov["printer_mismatch"] = len([e for e in events if e["ev"] == "PrinterMismatch"])
    run.cov["evaluations"] = len(types)
    mism, ill = validate(run, types)
    run.cov["distinct_nontrivial"] = len([i for i in ill if not types[i]["base"]])
    run.cov["not_judged_roundtrip"] = len([e for e in types if e["accepted"] and not e["roundtrip"]])
    by_rule = {}
    for i in ill:
        by_rule[types[i]["rule"].split("+")[0]] = by_rule.get(types[i]["rule"].split("+")[0], 0) + 1
    run.cov["ill_typed_mutants_by_rule"] = by_rule
    for e in types[1:2]:
        run.sample({"id": e["id"], "rule": e["rule"], "src": e["src"][:600], "accepted": e["accepted"]})
    base_ill = [types[i]["id"] for i in ill if types[i]["base"]]
    if base_ill:
        run.cov["model_drift"] = len(base_ill)
        out("MODEL-DRIFT: %d generated base programs are accepted by the checker but not WellTyped per GarbleTypes.tla (their mutants are still judged; not an alarm)" % len(base_ill))
    groups = {}
    for idx, detail in mism:
        e = types[idx]
        if e["base"]:
            continue
        groups.setdefault((detail[0], e["rule"]), []).append(e)
    for (what, rule), items in sorted(groups.items()):
        items.sort(key=lambda e: len(e["src"]))
        e = items[0]
        run.fail("types:%s:%s" % (what, rule), "%d mutants (%s): %s; smallest:\n%s" % (len(items), rule, what, e["src"][:900]), {"event": {k: e[k] for k in ("ev", "id", "rule", "base", "prog", "accepted", "panic", "roundtrip", "src")}, "count": len(items)})
