"""C12 - const parameters act as literal substitution; missing/mistyped ones are errors."""
from vlib import *


def run(run, harness, replay=None):
    tier = run.tier
    run.cov["rule"] = (
        "spec->impl: Gen_Consts.tla enumerates const declaration shapes (external values, references to earlier constants in both textual orders, nested "
        "min/max/+/- with operands that wrap) over u8, i8, u16, i16 and usize sizes (array size, loop trip count) x every assignment of boundary values x "
        "every fault mode of the supplied map (missing one / all, wrong type, missing + wrong type, unrelated extra entry) and emits the values ConstEval.tla "
        "demands (wrapping at the declared type after every operation) or the exact set of constants an error must name; the harness compiles each case six "
        "times with fresh maps (hash orders differ), evaluates it, and compares with the expected bits and with the program in which every constant is "
        "replaced by its value. Non-trivial = cases whose constants are all supplied correctly (values compared)."
    )
    cpath = os.path.join(run.work, "cases.ndjson")
    if replay:
        write_ndjson(cpath, [replay["case"]])
    else:
        with open(cpath, "w") as f:
            for fam in ("arith", "sizes"):
                p = os.path.join(run.work, fam + ".ndjson")
                r, n = tlc_cases("Gen_Consts", "Gen_Consts_%s.cfg" % fam, p, workers=8, timeout=3000)
                run.add_tlc("Gen_Consts/" + fam, r)
                f.write(open(p).read())
        run.cov["exhaustive"] = True
    rpath = os.path.join(run.work, "res.ndjson")
    run_harness(harness, ["consts-replay", cpath, rpath], timeout=7200)
    groups = {}
    for x in read_ndjson(rpath):
        if x.get("summary"):
            run.cov["evaluations"] += x["n"]
            run.cov["traces_validated_against_impl"] += x["n"]
            run.cov["distinct_nontrivial"] += x["ok_cases"]
        else:
            c = x["case"]
            shape = json.dumps([[d["n"], d["e"]] for d in c["decls"]], sort_keys=True)
            shape = re.sub(r'"v": -?\d+', '"v": N', shape)
            fault = "missing=%d,mistyped=%d" % (len(c["missing"]), len(c["mistyped"]))
            groups.setdefault((x["what"], c["ty"], fault if not c["ok"] else "ok", sha(shape)), []).append(x)
    cases = read_ndjson(cpath)
    if cases:
        run.sample(cases[len(cases) // 3])
    by_kind = {}
    for (what, ty, fault, shp), items in groups.items():
        by_kind.setdefault((what, ty if what != "wrong-error" else "*", fault), []).append(items)
    for (what, ty, fault), lst in sorted(by_kind.items()):
        lst.sort(key=lambda items: len(items[0]["src"]))
        w = lst[0][0]
        total = sum(len(i) for i in lst)
        run.fail("consts:%s:%s:%s" % (what, ty, fault), "%d cases (%d declaration shapes): %s; simplest:\n%s  supplied %s -> %s" % (total, len(lst), what, w["src"], json.dumps(dict(zip([":".join(d) for d in w["case"]["deps"]], w["case"]["asg"]))), w["observed"][:400]),
                 {"case": w["case"], "src": w["src"], "observed": w["observed"], "count": total})
