"""C04 - circuit optimisations never change the computed function."""
from vlib import *

# (cfg name, NumIn, CacheGates, MaxReq, History, Macros, build invariants, emit)
def write_cfg(path, nin, cache, maxreq, hist, macros, build, emit):
    inv = ["ResponseSound", "GatesWellFormed"] + (["BuildPreservesOutputs", "BuildShape"] if build else []) + (["Emit"] if emit else [])
    with open(path, "w") as f:
        f.write("SPECIFICATION Spec\nCONSTANTS\n  NumIn = %d\n  CacheGates = %s\n  MaxReq = %d\n  History = %s\n  Macros <- %s\n" % (nin, "TRUE" if cache else "FALSE", maxreq, "TRUE" if hist else "FALSE", macros))
        for i in inv:
            f.write("INVARIANT %s\n" % i)
        f.write("PROPERTY AppendOnly\nCHECK_DEADLOCK FALSE\n")


def design_runs(tier):
    if tier == "quick":
        return [(2, True, 3), (2, False, 3), (3, True, 3)]
    return [(2, True, 4), (2, False, 4), (3, True, 3), (3, False, 3), (2, True, 5), (3, True, 4)]


def run(run, harness, replay=None, shape_only=False):
    tier = run.tier
    run.cov["rule"] = (
        "design: TLC explores Builder.tla (every rewrite rule of optimize_xor/push_xor/optimize_and/push_and, cache and negation map as state) over all "
        "request sequences within the bound and checks ResponseSound, AppendOnly, BuildPreservesOutputs, BuildShape at every state; "
        "spec->impl: every request history of the bound (and simulated longer ones with macro requests) is replayed into the real CircuitBuilder "
        "(verif_hooks), built with all responses as outputs, evaluated on all assignments and compared with the literal truth tables; "
        "impl->spec: random 50-400 request sequences through the real builder validated step by step by Trace_Builder.tla; "
        "on/off: corpus programs compiled with de-duplication on and off are compared on sampled inputs. "
        "Non-trivial = a replayed history whose built circuit has at least one gate besides the constants."
    )
    cfgdir = os.path.join(SPEC, "gen_cfg")
    os.makedirs(cfgdir, exist_ok=True)
    cases_files = []
    if replay:
        cpath = os.path.join(run.work, "cases.ndjson")
        write_ndjson(cpath, [replay["case"]])
        cases_files.append(cpath)
    else:
        # 1. design checking
        for (nin, cache, maxreq) in design_runs(tier):
            name = "MC_Builder_d_%d_%d_%d" % (nin, int(cache), maxreq)
            write_cfg(os.path.join(SPEC, name + ".cfg"), nin, cache, maxreq, False, "NoMacros", True, False)
            r = tlc("MC_Builder", name + ".cfg", workers=8, timeout=3000, xmx="8g", coverage=False)
            run.add_tlc(name, r)
            if r.coverage:
                run.cov["tlc_coverage"] = {k: v for k, v in r.coverage.items() if k.startswith("Builder.Req")}
            os.remove(os.path.join(SPEC, name + ".cfg"))
        # 2. emission of histories (exhaustive to the bound) ...
        for cache in (True, False):
            name = "MC_Builder_h_2_%d_3" % int(cache)
            write_cfg(os.path.join(SPEC, name + ".cfg"), 2, cache, 3, True, "NoMacros", False, True)
            cpath = os.path.join(run.work, name + ".ndjson")
            r, n = tlc_cases("MC_Builder", name + ".cfg", cpath, workers=8, timeout=3000, xmx="8g")
            run.add_tlc(name, r)
            cases_files.append(cpath)
            os.remove(os.path.join(SPEC, name + ".cfg"))
        # ... and simulated longer histories with macro requests
        nsim = 3000 if tier == "quick" else 60000
        for (nin, cache, depth) in ((3, True, 8), (2, True, 10), (3, False, 7)):
            name = "MC_Builder_s_%d_%d_%d" % (nin, int(cache), depth)
            write_cfg(os.path.join(SPEC, name + ".cfg"), nin, cache, depth, True, "AllMacros", False, True)
            cpath = os.path.join(run.work, name + ".ndjson")
            r, n = tlc_cases("MC_Builder", name + ".cfg", cpath, workers=4, simulate="num=100000000", depth=depth + 1, seed=run.seed + 17, timeout=3000, xmx="4g", max_cases=nsim)
            run.add_tlc(name, r)
            cases_files.append(cpath)
            os.remove(os.path.join(SPEC, name + ".cfg"))
        run.cov["exhaustive"] = True
    shape_events = []
    for cpath in cases_files:
        rpath = cpath + ".res"
        spath = cpath + ".shape"
        run_harness(harness, ["builder-replay", cpath, rpath, spath])
        for x in read_ndjson(rpath):
            if x.get("summary"):
                run.cov["evaluations"] += x["n"]
                run.cov["traces_validated_against_impl"] += x["n"]
                run.cov["distinct_nontrivial"] += x["nontrivial"]
                run.cov["model_drift"] += x["drift"]
            elif not shape_only:
                c = x["case"]
                key = "builder-replay:" + sha([c["nin"], c["cache"], [[r["op"], r["args"]] for r in c["reqs"]]])
                run.fail(key, "real builder differs from literal execution: %s" % x["observed"][:300], {"case": c, "observed": x["observed"], "expected": "truth tables in case.reqs[*].tts"})
        if len(shape_events) < 40000:
            shape_events += read_ndjson(spath)[:40000]
    if cases_files:
        for x in read_ndjson(cases_files[0])[:2]:
            run.sample(x)
    if run.cov["model_drift"]:
        out("MODEL-DRIFT: %d replayed histories return different wire numbers than Builder.tla predicts (not an alarm)" % run.cov["model_drift"])
    if shape_only:
        return shape_events
    if not replay:
        # 3. impl -> spec: long random sequences
        tpath = os.path.join(run.work, "rec.ndjson")
        spath = os.path.join(run.work, "rec.shape")
        nseq = "150" if tier == "quick" else "3000"
        run_harness(harness, ["builder-record", tpath, nseq, "50", "400", spath], env={"VERIF_SEED": run.seed})
        events = read_ndjson(tpath)
        # split on sequence boundaries: chunking must not cut a sequence
        seqs, cur = [], []
        for e in events:
            if e["ev"] == "New" and cur:
                seqs.append(cur)
                cur = []
            cur.append(e)
        if cur:
            seqs.append(cur)
        groups, g = [], []
        for s in seqs:
            g += s
            if len(g) > 30000:
                groups.append(g)
                g = []
        if g:
            groups.append(g)
        for g in groups:
            mism = validate_trace(run, "Trace_Builder", "Trace_Builder.cfg", g, chunk=10**9)
            for idx, detail in mism:
                # locate the sequence prefix that leads to the mismatch
                start = max(i for i in range(idx + 1) if g[i]["ev"] == "New")
                hist = g[start : idx + 1]
                run.fail("builder-trace:" + sha(hist), "recorded response is not the literal function of its operands: %s" % json.dumps(detail)[:300], {"history": hist, "expected": detail})
        # 4. on/off comparison on compiled corpus programs
        opath = os.path.join(run.work, "onoff.ndjson")
        run_harness(harness, ["onoff", os.path.join(VERIF, "corpus"), opath, "60" if tier == "quick" else "400"], env={"VERIF_SEED": run.seed})
        evs = read_ndjson(opath)
        mism = validate_trace(run, "Trace_OnOff", "Trace_OnOff.cfg", evs)
        for idx, detail in mism:
            d = detail[0] if isinstance(detail, list) else detail
            # differences confined to the reason / location bits of the panic record while no circuit reports a panic: open known finding
            if d.get("kind") == "payload_only" and run.known_hit("panic-payload-without-panic"):
                run.cov["onoff_payload_only_programs"] = run.cov.get("onoff_payload_only_programs", 0) + 1
                continue
            run.fail("onoff:" + evs[idx]["file"], "de-duplication on/off circuits differ (%s): %s" % (d.get("kind"), json.dumps(d.get("input"))[:300]), {"event": evs[idx]})
