"""C16 - a circuit that passes validation can be evaluated safely."""
from vlib import *


def run(run, harness, replay=None):
    tier = run.tier
    run.cov["rule"] = (
        "spec->impl: TLC enumerates every small SSA / register circuit value (forward, self and out-of-range references, "
        "empty lists, zero-size parties, input instructions naming any party/index, any max_reg_count) and emits it with the "
        "oracle verdict EvalSafe (register step machine with defined-set); the real validate() and eval() are run on each: "
        "alarm iff validate accepts and (oracle says unsafe, or eval panics, or output length differs) or validate itself panics. "
        "impl->spec: validate() must accept every compiler / converter product of the corpus. "
        "Non-trivial = values the real validate() accepts (the antecedent of the property holds)."
    )
    bad = []
    summaries = []
    if replay:
        cpath = os.path.join(run.work, "cases.ndjson")
        write_ndjson(cpath, [replay["case"]])
        rpath = os.path.join(run.work, "res.ndjson")
        run_harness(harness, ["c16-replay", cpath, rpath])
        for r in read_ndjson(rpath):
            (summaries if r.get("summary") else bad).append(r)
    else:
        for kind in ("ssa", "reg"):
            cfg = "Gen_CircVals_%s_%s.cfg" % (kind, tier)
            cpath = os.path.join(run.work, "cases_%s.ndjson" % kind)
            r, n = tlc_cases("Gen_CircVals", cfg, cpath, workers=8, timeout=3000, xmx="8g", coverage=False)
            run.add_tlc("Gen_CircVals/" + cfg, r)
            rpath = os.path.join(run.work, "res_%s.ndjson" % kind)
            run_harness(harness, ["c16-replay", cpath, rpath])
            for x in read_ndjson(rpath):
                (summaries if x.get("summary") else bad).append(x)
            os.remove(cpath)
        run.cov["exhaustive"] = True
    for s in summaries:
        run.cov["evaluations"] += s["n"]
        run.cov["traces_validated_against_impl"] += s["n"]
        run.cov["distinct_nontrivial"] += s["valid"]
        run.cov["model_drift"] += s["drift"]
        run.cov.setdefault("design_model_counterexamples", 0)
        run.cov["design_model_counterexamples"] += s["model_ok_but_unsafe"]
        for x in s["samples"][:2]:
            run.sample(x)
    if run.cov["model_drift"]:
        out("MODEL-DRIFT: real validate() differs from Validate.tla on %d values (not an alarm)" % run.cov["model_drift"])
    # group failures by their signature so that one defect is one report
    groups = {}
    for b in bad:
        c, o = b["case"], b["observed"]
        if o["validate"] == "panic":
            sig = "validate-panics"
        elif o["eval"] == "panic":
            sig = "accepted-but-eval-panics"
        elif o["outlen"] != o["nout"]:
            sig = "accepted-but-wrong-output-count"
        else:
            sig = "accepted-but-reads-undefined"
        sig = c["kind"] + ":" + sig
        groups.setdefault(sig, []).append(b)
    for sig, items in sorted(groups.items()):
        items.sort(key=lambda b: len(json.dumps(b["case"])))
        w = items[0]
        run.fail(sig, "%d circuit values: %s; smallest: %s" % (len(items), sig, json.dumps(w["case"]["c"])), {"case": w["case"], "observed": w["observed"], "expected": "validate ok => safe evaluation", "count": len(items)})
    if not replay:
        ppath = os.path.join(run.work, "products.ndjson")
        run_harness(harness, ["c16-products", os.path.join(VERIF, "corpus"), ppath, "80" if tier == "quick" else "1000"])
        prods = read_ndjson(ppath)
        run.cov["traces_validated_against_impl"] += len(prods)
        run.cov["evaluations"] += len(prods)
        for p in prods:
            if p["ssa"] != "ok" or p["reg"] != "ok":
                run.fail("product-rejected:" + p["file"], "validate() does not accept a compiler/converter product: %s" % json.dumps(p), {"product": p})
