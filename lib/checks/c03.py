"""C03 - integer operators and casts are bit-exact at every width and overflow boundary."""
from vlib import *


BITS = {"u8": 8, "i8": 8, "u16": 16, "i16": 16, "u32": 32, "i32": 32, "usize": 32, "u64": 64, "i64": 64}


def sval(bits, signed):
    v = 0
    for b in bits:
        v = (v << 1) | b
    if signed and bits and bits[0] == 1:
        v -= 1 << len(bits)
    return v


def signature(bucket, x, y, observed_overflow):
    """Classifier for the open known finding `neg-const-mul-min` (DESIGN §7): multiplication by a
    negative literal constant c with |c| < bit width is rewritten to -(x + ... + x), which
    overflows when the exact product is MIN (representable).  Anything else is not known."""
    parts = bucket.split(":")
    if len(parts) < 4 or parts[1] != "mul" or parts[3] not in ("cv", "vc"):
        return None
    ty = parts[2]
    if not ty.startswith("i"):
        return None
    n = BITS[ty]
    c, v = (x, y) if parts[3] == "cv" else (y, x)
    if c < 0 and -c < n and c * v == -(1 << (n - 1)) and observed_overflow:
        return "neg-const-mul-min"
    return None


def run(run, harness, replay=None):
    tier = run.tier
    run.cov["rule"] = (
        "spec->impl: TLC computes from IntOps.tla the complete result table of every binary operator on u8 and i8 (16 x 2 x 65536 entries), "
        "of the unary operators, of the Boolean operators and of every cast from bool/8/16-bit sources to every primitive type (all source values); "
        "the harness compiles x op y, C op y, x op C (boundary constants in quick, all 256 in thorough) and x as T and evaluates every entry. "
        "impl->spec: boundary-directed and random operands of 16/32/64-bit types and usize are evaluated on compiled programs and each event is judged "
        "by Trace_IntOps.tla on byte limbs (exact add/sub/mul, relational div/mod, shifts and bitwise on bits). "
        "A failing bucket (op/type/form) is one finding identified by the hash of its failing (case, observed) set. "
        "Non-trivial = table entries / events evaluated (every one exercises the compiled operator circuit)."
    )
    bad = []
    if replay:
        rows = os.path.join(run.work, "rows.ndjson")
        write_ndjson(rows, replay["rows"])
        res = os.path.join(run.work, "res.ndjson")
        run_harness(harness, ["intops-replay", rows, res, "boundary"])
        allres = read_ndjson(res)
    else:
        rows = os.path.join(run.work, "rows.ndjson")
        parts = []
        for m in ("bin8", "un8", "cast"):
            p = os.path.join(run.work, "rows_%s.ndjson" % m)
            cfg = "Gen_IntOps_%s.cfg" % m
            if m == "cast" and tier == "quick":
                cfg = "Gen_IntOps_castq.cfg"
            r, n = tlc_cases("Gen_IntOps", cfg, p, workers=8, timeout=3000)
            run.add_tlc("Gen_IntOps/" + cfg, r)
            parts.append(p)
        with open(rows, "w") as f:
            for p in parts:
                f.write(open(p).read())
        res = os.path.join(run.work, "res.ndjson")
        run_harness(harness, ["intops-replay", rows, res, "boundary" if tier == "quick" else "all"], timeout=7200)
        allres = read_ndjson(res)
        run.cov["exhaustive"] = True
    for x in allres:
        if x.get("summary"):
            run.cov["evaluations"] += x["evals"]
            run.cov["distinct_nontrivial"] += x["evals"]
            run.cov["traces_validated_against_impl"] += x["evals"]
            run.cov["table_rows"] = x["rows"]
        elif x.get("bad"):
            bad.append(x)
    run.sample({"table_row": read_ndjson(rows)[0]}) if os.path.exists(rows) and os.path.getsize(rows) else None
    buckets = {}
    for b in bad:
        sig = None
        if "x" in b["case"] and "y" in b["case"]:
            sig = signature(b["bucket"], b["case"]["x"], b["case"]["y"], b["observed"] == "Ok(100001)")
        if sig and run.known_hit(sig):
            continue
        buckets.setdefault(b["bucket"], []).append(b)
    for bucket, items in sorted(buckets.items()):
        sig = sha(sorted([json.dumps(i["case"], sort_keys=True), i["observed"]] for i in items))
        key = "%s:%s" % (bucket, sig)
        w = items[0]
        rowsel = []
        run.fail(key, "%d failing entries in %s, e.g. %s expected %s observed %s" % (len(items), bucket, json.dumps(w["case"]), w["expected"], w["observed"]),
                 {"bucket": bucket, "failing": [[i["case"], i["expected"], i["observed"]] for i in items[:50]], "count": len(items), "rows": rowsel})
    if not replay:
        wide(run, harness)


def wide(run, harness):
    tier = run.tier
    tpath = os.path.join(run.work, "wide.ndjson")
    run_harness(harness, ["intops-record", tpath, "40" if tier == "quick" else "600"], env={"VERIF_SEED": run.seed}, timeout=7200)
    events = read_ndjson(tpath)
    run.cov["evaluations"] += len(events)
    run.cov["distinct_nontrivial"] += len(events)
    for e in events[:2]:
        run.sample(e)
    mism = validate_trace(run, "Trace_IntOps", "Trace_IntOps.cfg", events, chunk=max(5000, len(events) // 8 + 1))
    groups = {}
    for idx, detail in mism:
        e = events[idx]
        bucket = "wide:%s:%s:%s" % (e["op"], e["ty"], e["form"])
        if e["op"] == "mul" and e["form"] in ("cv", "vc"):
            sg = e["ty"].startswith("i")
            sig = signature(bucket, sval(e["a"], sg), sval(e["b"], sg), e["panic"] == 1)
            if sig and run.known_hit(sig):
                continue
        groups.setdefault(bucket, []).append((e, detail))
    for bucket, items in sorted(groups.items()):
        sig = sha(sorted(json.dumps([e["a"], e.get("b"), e["out"]]) for e, _ in items))
        e, d = items[0]
        run.fail(bucket + ":" + sig, "%d failing wide events in %s, e.g. %s: expected %s" % (len(items), bucket, json.dumps({k: e[k] for k in ("src", "a", "b", "out") if k in e})[:400], json.dumps(d)[:200]),
                 {"bucket": bucket, "events": [x for x, _ in items[:30]], "expected": [y for _, y in items[:30]]})
