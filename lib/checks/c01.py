"""C01 - compiled circuit returns exactly the value the source program denotes."""
from evalcheck import *

RULE = ("impl->spec: corpus programs (extracted from the repository's tests, examples and docs) and natively generated random well-typed programs "
        "(all operators, casts, if/else, match, blocks, let/let mut, assignments through nested accessors, for loops, calls, arrays/ranges/tuples/structs/enums, "
        "consts, shadowing) are compiled by the real compiler in the four configurations {SSA, register} x {dedup on, off} and evaluated on boundary-biased "
        "random arguments; every run is judged by Trace_Eval.tla: arguments re-encoded by Layout.tla, source semantics by GarbleSem.tla, output bits compared. "
        "Non-trivial = programs whose observed outputs differ between two runs (output depends on the input).")


def run(run, harness, replay=None):
    corpus = os.path.join(VERIF, "corpus")
    quick = [["eval-corpus", corpus, "@OUT", "60", "6"], ["eval-gen", "@OUT", "1000", "6", "default"], ["eval-gen", "@OUT", "300", "6", "default", "effects"], ["eval-gen", "@OUT", "500", "6", "mutation", "effects"]]
    thorough = [["eval-corpus", corpus, "@OUT", "400", "16"], ["eval-gen", "@OUT", "12000", "12", "default"], ["eval-gen", "@OUT", "4000", "8", "default", "effects"], ["eval-gen", "@OUT", "3000", "8", "mutation"]]
    run_eval_check(run, harness, replay, quick, thorough, RULE)
