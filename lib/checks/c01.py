"""C01 - compiled circuit returns exactly the value the source program denotes."""
from evalcheck import *

RULE = ("spec->impl: arm lists enumerated by Gen_Arms.tla are evaluated on every value of the scrutinee type (first matching arm decides); impl->spec: corpus programs (extracted from the repository's tests, examples and docs) and natively generated random well-typed programs "
        "(all operators, casts, if/else, match, blocks, let/let mut, assignments through nested accessors, for loops, calls, arrays/ranges/tuples/structs/enums, "
        "consts, shadowing) are compiled by the real compiler in the four configurations {SSA, register} x {dedup on, off} and evaluated on boundary-biased "
        "random arguments; every run is judged by Trace_Eval.tla: arguments re-encoded by Layout.tla, source semantics by GarbleSem.tla, output bits compared. "
        "Non-trivial = programs whose observed outputs differ between two runs (output depends on the input).")


def run(run, harness, replay=None):
    corpus = os.path.join(VERIF, "corpus")
    quick = [["eval-corpus", corpus, "@OUT", "60", "6"], ["eval-gen", "@OUT", "1000", "6", "default"], ["eval-gen", "@OUT", "300", "6", "default", "effects"], ["eval-gen", "@OUT", "500", "6", "mutation", "effects"]]
    thorough = [["eval-corpus", corpus, "@OUT", "400", "16"], ["eval-gen", "@OUT", "12000", "12", "default"], ["eval-gen", "@OUT", "4000", "8", "default", "effects"], ["eval-gen", "@OUT", "3000", "8", "mutation"]]
    run_eval_check(run, harness, replay, quick, thorough, RULE)
    if not replay:
        # spec->impl family for pattern matching: TLC (Gen_Arms.tla, the generator of C08) enumerates arm lists over every value of
        # bool / u8 / i8 with the deciding arm per value; every accepted match is evaluated on every value (only the value clause is judged here)
        cfg = "narrow2" if run.tier == "quick" else "narrow3s"
        cpath = os.path.join(run.work, "arms_%s.ndjson" % cfg)
        r, n = tlc_cases("Gen_Arms", "Gen_Arms_%s.cfg" % cfg, cpath, workers=8, timeout=6000, xmx="8g")
        run.add_tlc("Gen_Arms/" + cfg, r)
        rpath, wpath = cpath + ".res", cpath + ".wit"
        run_harness(harness, ["arms-replay", cpath, rpath, wpath], timeout=7200)
        wrong = []
        for x in read_ndjson(rpath):
            if x.get("summary"):
                run.cov["evaluations"] += x["evals"]
                run.cov["traces_validated_against_impl"] += x["evals"]
                run.cov["match_programs"] = x["n"]
            elif x["what"] == "wrong-arm":
                wrong.append(x)
        os.remove(cpath)
        groups = {}
        for b in wrong:
            shape = re.sub(r"-?\d+", "N", " | ".join(a.split("=>")[0].strip() for a in b["arms"]))
            groups.setdefault("%s:%s" % (b["ty"], shape), []).append(b)
        if groups:
            sig, items = sorted(groups.items(), key=lambda kv: (len(kv[0]), kv[0]))[0]
            w = items[0]
            run.fail("match-value:" + w["ty"], "%d match programs (%d shapes) return the value of another arm than the first matching one; simplest: %s observed: %s" % (len(wrong), len(groups), w["src"].replace("\n", " ")[-260:], w["observed"][:300]),
                     {"id": "match-program", "src": w["src"], "inputs": [], "observed": w["observed"], "count": len(wrong)})
