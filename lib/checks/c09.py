"""C09 - literal encoding round-trips, matches the circuit bit layout, is validated."""
from vlib import *


def run(run, harness, replay=None):
    tier = run.tier
    run.cov["rule"] = (
        "spec->impl: TLC enumerates the bounded type universe (all primitive types; arrays of 0-3; tuples of 0-3; a struct; enums with 3 and 5 variants; one "
        "level of nesting in thorough) x boundary values and emits for each value the bits Layout.Encode demands plus every spelling of the adversarial "
        "family with its denotation (canonical / same value / no value); the harness replays them into literal_arg, set_literal, as_bits, parse_output, "
        "to_string+parse_arg and the identity program. Alarm: canonical refused or wrong bits or wrong round trip; non-canonical accepted with other bits; "
        "a spelling that denotes nothing accepted; any panic. Design + spec->impl for the session protocol: EvalSession.tla (literals are checked against "
        "the next parameter, failed calls leave the session unchanged, run succeeds iff every parameter has an input of its width) is checked by TLC and every "
        "call history of the bound is replayed into a real Evaluator. Non-trivial = (value, spelling) checks performed."
    )
    cpath = os.path.join(run.work, "cases.ndjson")
    if replay and "session" in replay:
        spath = os.path.join(run.work, "sessions.ndjson")
        write_ndjson(spath, [replay["session"]])
        rpath2 = os.path.join(run.work, "sessions.res")
        run_harness(harness, ["session-replay", spath, rpath2])
        for x in read_ndjson(rpath2):
            if not x.get("summary"):
                run.fail("session:" + x["what"], "evaluation session: %s observed %s" % (x["what"], json.dumps(x["observed"])[:200]), {"session": x["case"], "observed": x["observed"]})
        return
    if replay:
        write_ndjson(cpath, [replay["case"]])
    else:
        cfg = "Gen_Literals_0.cfg" if tier == "quick" else "Gen_Literals_1.cfg"
        r, n = tlc_cases("Gen_Literals", cfg, cpath, workers=8, timeout=3000)
        run.add_tlc("Gen_Literals/" + cfg, r)
        run.cov["exhaustive"] = True
    rpath = os.path.join(run.work, "res.ndjson")
    run_harness(harness, ["literals-replay", cpath, rpath])
    groups = {}
    for x in read_ndjson(rpath):
        if x.get("summary"):
            run.cov["evaluations"] += x["checks"]
            run.cov["distinct_nontrivial"] += x["checks"]
            run.cov["traces_validated_against_impl"] += x["checks"]
            run.cov["values"] = x["cases"]
        else:
            tk = x["ty"]["k"]
            if tk == "arr" and x["ty"]["n"] == 0:
                tk = "arr0"
            groups.setdefault(x["what"] + ":" + tk, []).append(x)
    cases = read_ndjson(cpath)
    if cases:
        c = cases[len(cases) // 2]
        run.sample({"ty": c["ty"], "v": c["v"], "bits": c["bits"], "canon": c["canon"], "spellings": c["spellings"][:3]})
    for sig, items in sorted(groups.items()):
        w = items[0]
        case = {"ty": w["ty"], "v": w["v"], "bits": w["expected_bits"], "size": len(w["expected_bits"]), "canon": None, "spellings": []}
        full = [c for c in cases if c["ty"] == w["ty"] and c["v"] == w["v"]]
        run.fail("literal:" + sig, "%d cases: %s; e.g. type %s value %s spelling %s: %s" % (len(items), sig, json.dumps(w["ty"]), json.dumps(w["v"]), json.dumps(w["spelling"])[:300], w["observed"][:200]),
                 {"case": full[0] if full else case, "spelling": w["spelling"], "observed": w["observed"], "count": len(items)})
    if not replay:
        # evaluation sessions (EvalSession.tla): TLC checks the session protocol (literals are type-checked against the next parameter, a
        # failed call leaves the session unchanged, run succeeds iff every parameter has an input of its width) and emits every call history
        # of the bound with the outcome of every call; each history is replayed into a real Evaluator - no call may panic
        spath = os.path.join(run.work, "sessions.ndjson")
        r, n = tlc_cases("EvalSession", "EvalSession_%s.cfg" % tier, spath, workers=6, timeout=3000, xmx="8g", max_cases=None if tier == "quick" else 600000)
        run.add_tlc("EvalSession", r)
        rpath2 = os.path.join(run.work, "sessions.res")
        run_harness(harness, ["session-replay", spath, rpath2], timeout=7200)
        sg = {}
        for x in read_ndjson(rpath2):
            if x.get("summary"):
                run.cov["evaluations"] += x["n"]
                run.cov["traces_validated_against_impl"] += x["n"]
                run.cov["evaluation_sessions"] = x["n"]
            else:
                calls = [h["c"] + ":" + h["k"] for h in x["case"]["hist"]]
                sg.setdefault(x["what"], []).append((len(calls), x))
        for what, items in sorted(sg.items()):
            items.sort(key=lambda t: t[0])
            w = items[0][1]
            run.fail("session:" + what, "%d evaluation sessions: %s; shortest: parameters %s, calls %s, observed %s" % (len(items), what, json.dumps(w["case"]["params"]), json.dumps(w["case"]["hist"])[:400], json.dumps(w["observed"])[:200]),
                     {"session": w["case"], "observed": w["observed"], "count": len(items)})
