"""C09 - literal encoding round-trips, matches the circuit bit layout, is validated."""
from vlib import *


def run(run, harness, replay=None):
    tier = run.tier
    run.cov["rule"] = (
        "spec->impl: TLC enumerates the bounded type universe (all primitive types; arrays of 0-3; tuples of 0-3; a struct; enums with 3 and 5 variants; one "
        "level of nesting in thorough) x boundary values and emits for each value the bits Layout.Encode demands plus every spelling of the adversarial "
        "family with its denotation (canonical / same value / no value); the harness replays them into literal_arg, set_literal, as_bits, parse_output, "
        "to_string+parse_arg and the identity program. Alarm: canonical refused or wrong bits or wrong round trip; non-canonical accepted with other bits; "
        "a spelling that denotes nothing accepted; any panic. Non-trivial = (value, spelling) checks performed."
    )
    cpath = os.path.join(run.work, "cases.ndjson")
    if replay:
        write_ndjson(cpath, [replay["case"]])
    else:
        cfg = "Gen_Literals_0.cfg" if tier == "quick" else "Gen_Literals_1.cfg"
        r, n = tlc_cases("Gen_Literals", cfg, cpath, workers=8, timeout=3000)
        run.add_tlc("Gen_Literals/" + cfg, r)
        run.cov["exhaustive"] = True
    rpath = os.path.join(run.work, "res.ndjson")
    run_harness(harness, ["literals-replay", cpath, rpath])
    groups = {}
    for x in read_ndjson(rpath):
        if x.get("summary"):
            run.cov["evaluations"] += x["checks"]
            run.cov["distinct_nontrivial"] += x["checks"]
            run.cov["traces_validated_against_impl"] += x["checks"]
            run.cov["values"] = x["cases"]
        else:
            tk = x["ty"]["k"]
            if tk == "arr" and x["ty"]["n"] == 0:
                tk = "arr0"
            groups.setdefault(x["what"] + ":" + tk, []).append(x)
    cases = read_ndjson(cpath)
    if cases:
        c = cases[len(cases) // 2]
        run.sample({"ty": c["ty"], "v": c["v"], "bits": c["bits"], "canon": c["canon"], "spellings": c["spellings"][:3]})
    for sig, items in sorted(groups.items()):
        w = items[0]
        case = {"ty": w["ty"], "v": w["v"], "bits": w["expected_bits"], "size": len(w["expected_bits"]), "canon": None, "spellings": []}
        full = [c for c in cases if c["ty"] == w["ty"] and c["v"] == w["v"]]
        run.fail("literal:" + sig, "%d cases: %s; e.g. type %s value %s spelling %s: %s" % (len(items), sig, json.dumps(w["ty"]), json.dumps(w["v"]), json.dumps(w["spelling"])[:300], w["observed"][:200]),
                 {"case": full[0] if full else case, "spelling": w["spelling"], "observed": w["observed"], "count": len(items)})
