"""C10 - register circuit equivalent to the SSA circuit and safe to execute."""
from vlib import *


def run(run, harness, replay=None):
    tier = run.tier
    run.cov["rule"] = (
        "spec->impl: TLC explores the allocator design model RegAlloc.tla on every SSA circuit within the bound "
        "(ordered operand pairs, repeats, unused wires, any output list) and emits each circuit; the real converter is run on each; "
        "impl->spec: every real conversion result is validated by Trace_Reg.tla (validation ok, inputs loaded in order, "
        "register step machine never reads an unwritten register, outputs equal to the SSA semantics on all assignments, "
        "register count <= #wires, and_ops equal). Non-trivial = a circuit with at least one gate whose conversion reuses a register."
    )
    if replay:
        events = [replay["event"]] if "event" in replay else []
        cases = [replay["ssa"]] if "ssa" in replay and not events else []
    else:
        # thorough: the design check and the emission of the circuits are separate runs; the cases are streamed to disk and
        # capped (the space of 3-gate circuits over 3 input bits has millions of members: breadth-first order, smallest first)
        cfg = "RegAlloc_quick.cfg" if tier == "quick" else "RegAlloc_thorough_mc.cfg"
        r = tlc("RegAlloc", cfg, workers=8, coverage=True, timeout=6000, xmx="8g")
        run.add_tlc("RegAlloc/" + cfg, r)
        run.cov["tlc_coverage"] = {k: v for k, v in r.coverage.items() if k.startswith("RegAlloc.")}
        for act in ("AddGate", "Finish", "ProcessGate"):
            if r.coverage.get("RegAlloc." + act, {}).get("distinct", 0) == 0:
                raise ToolError("vacuity: action %s never taken" % act)
        cpath = os.path.join(run.work, "cases.ndjson")
        if tier == "quick":
            cases = r.tagged("CASE")
            write_ndjson(cpath, cases)
            run.cov["exhaustive"] = True
        else:
            r2, ncases = tlc_cases("RegAlloc", "RegAlloc_thorough.cfg", cpath, workers=8, timeout=6000, xmx="8g", max_cases=400000)
            run.add_tlc("RegAlloc/emit", r2)
            run.cov["emitted_cases"] = ncases
            run.cov["exhaustive"] = ncases < 400000
            cases = [1]
        events = []
    if cases:
        cpath = os.path.join(run.work, "cases.ndjson")
        tpath = os.path.join(run.work, "trace.ndjson")
        if replay:
            write_ndjson(cpath, cases)
        run_harness(harness, ["reg-convert", cpath, tpath], env={"VERIF_SEED": run.seed})
        events = read_ndjson(tpath)
    # compiled corpus circuits (impl -> spec only)
    if not replay:
        ppath = os.path.join(run.work, "corpus_trace.ndjson")
        n = "60" if tier == "quick" else "400"
        run_harness(harness, ["reg-convert-corpus", os.path.join(VERIF, "corpus"), ppath, n], env={"VERIF_SEED": run.seed})
        events += read_ndjson(ppath)
    run.cov["evaluations"] = len(events)
    nontrivial = 0
    conv = []
    for ev in events:
        if ev["ev"] == "ConvertPanic":
            run.fail("convert-panic:" + sha(ev["ssa"]), "conversion panicked: " + ev["panic"][:200], {"ssa": ev["ssa"], "observed": ev})
            continue
        if ev.get("drift"):
            run.cov["model_drift"] += 1
        if len(ev["ssa"]["gates"]) > 0 and ev["reg"]["max_reg_count"] < len(ev["reg"]["insts"]):
            nontrivial += 1
        conv.append(ev)
    run.cov["distinct_nontrivial"] = nontrivial
    for ev in conv[:2]:
        run.sample({"ssa": ev["ssa"], "reg": ev["reg"]})
    if run.cov["model_drift"]:
        out("MODEL-DRIFT: %d conversions differ from RegAlloc.tla's prediction (not an alarm)" % run.cov["model_drift"])
    mism = validate_trace(run, "Trace_Reg", "Trace_Reg.cfg", [dict((k, v) for k, v in e.items() if k != "drift") for e in conv], chunk=60000 if tier == "quick" else 80000)
    for idx, detail in mism:
        ev = conv[idx]
        run.fail("reg:" + ",".join(detail) + ":" + sha(ev["ssa"]), "register conversion violates: %s" % detail, {"event": ev, "expected": "no mismatch", "observed": detail})
