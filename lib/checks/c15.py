"""C15 - circuits contain no useless gates; pure data movement costs zero AND gates."""
from vlib import *
from checks.c04 import write_cfg


def run(run, harness, replay=None):
    tier = run.tier
    run.cov["rule"] = (
        "design: BuildShape (NoDeadGates, NoTrivialAnd, NoDupAnd with de-duplication) is an invariant of Builder.tla's Build over all request "
        "sequences of the bound; impl->spec: the circuit really built for every replayed request history, every random long request sequence, every "
        "corpus program (de-duplication on and off) and every data-movement program is logged and judged by Trace_Shape.tla (backward reachability "
        "from the outputs, AND operand checks, zero AND gates for movement programs). Non-trivial = built circuits with at least one non-constant gate."
    )
    events = []
    if replay:
        events = [replay["event"]]
    else:
        for (nin, cache, maxreq) in ([(2, True, 3), (2, False, 3)] if tier == "quick" else [(2, True, 4), (2, False, 4), (3, True, 3)]):
            name = "MC_Builder_c15_%d_%d_%d" % (nin, int(cache), maxreq)
            write_cfg(os.path.join(SPEC, name + ".cfg"), nin, cache, maxreq, False, "NoMacros", True, False)
            r = tlc("MC_Builder", name + ".cfg", workers=8, timeout=3000, xmx="8g")
            run.add_tlc(name, r)
            os.remove(os.path.join(SPEC, name + ".cfg"))
        # histories replayed into the real builder; the built circuits are the events
        jobs = [("h", 2, True, 3, None), ("h", 2, False, 3, None), ("s", 3, True, 8, 3000 if tier == "quick" else 40000), ("s", 2, True, 10, 3000 if tier == "quick" else 40000)]
        for (kind, nin, cache, depth, cap) in jobs:
            name = "MC_Builder_c15%s_%d_%d_%d" % (kind, nin, int(cache), depth)
            write_cfg(os.path.join(SPEC, name + ".cfg"), nin, cache, depth, True, "NoMacros" if kind == "h" else "AllMacros", False, True)
            cpath = os.path.join(run.work, name + ".ndjson")
            if kind == "h":
                r, n = tlc_cases("MC_Builder", name + ".cfg", cpath, workers=8, timeout=3000, xmx="8g")
            else:
                r, n = tlc_cases("MC_Builder", name + ".cfg", cpath, workers=4, simulate="num=100000000", depth=depth + 1, seed=run.seed + 5, timeout=3000, xmx="4g", max_cases=cap)
            run.add_tlc(name, r)
            os.remove(os.path.join(SPEC, name + ".cfg"))
            run_harness(harness, ["builder-replay", cpath, cpath + ".res", cpath + ".shape"])
            evs = read_ndjson(cpath + ".shape")
            # distinct circuits only
            seen = set()
            for e in evs:
                h = sha(e)
                if h not in seen:
                    seen.add(h)
                    events.append(e)
        spath = os.path.join(run.work, "rec.shape")
        run_harness(harness, ["builder-record", os.path.join(run.work, "rec.ndjson"), "100" if tier == "quick" else "1500", "20", "120", spath], env={"VERIF_SEED": run.seed})
        events += read_ndjson(spath)
        ppath = os.path.join(run.work, "corpus.shape")
        run_harness(harness, ["shape-compile", os.path.join(VERIF, "corpus"), ppath, "80" if tier == "quick" else "400", "0", "1500" if tier == "quick" else "6000"])
        events += read_ndjson(ppath)
        mpath = os.path.join(run.work, "movement.shape")
        run_harness(harness, ["shape-compile", os.path.join(VERIF, "corpus_movement"), mpath, "1000", "1", "100000"])
        mv = read_ndjson(mpath)
        run.cov["movement_programs"] = len([e for e in mv if e["ev"] == "Built"]) // 2
        events += mv
    built = []
    for e in events:
        if e["ev"] == "Built":
            built.append(e)
        else:
            run.fail("compile:" + e.get("file", "?"), "program of the shape corpus does not compile: %s" % json.dumps(e)[:300], {"event": e})
    run.cov["evaluations"] = len(built)
    run.cov["distinct_nontrivial"] = len([e for e in built if len(e["c"]["gates"]) > 2])
    for e in built[-2:]:
        run.sample({"file": e.get("file"), "dedup": e["dedup"], "gates": len(e["c"]["gates"]), "first_gates": e["c"]["gates"][:6]})
    mism = validate_trace(run, "Trace_Shape", "Trace_Shape.cfg", built, chunk=max(2000, len(built) // 8 + 1))
    for idx, detail in mism:
        e = built[idx]
        key = "shape:" + ",".join(detail) + ":" + (e.get("file") or sha(e["c"]))
        run.fail(key, "built circuit violates %s (%s, dedup=%s, %d gates)" % (detail, e.get("file", "builder history"), e["dedup"], len(e["c"]["gates"])), {"event": e, "observed": detail})
