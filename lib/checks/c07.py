"""C07 - front end is total: any input text gives Ok or errors, never a crash or hang."""
from vlib import *


def classify(ev, text):
    """grouping key of a failing front-end run: outcome + (for panics) the message shape"""
    if ev["outcome"] == "panic":
        return "panic:" + re.sub(r"\d+", "N", ev["phase"])[:90]
    return ev["outcome"]


HUGE = re.compile(r"\d{10,}")
SIZE_POS = re.compile(r";\s*(const\s*\{[^}]*\}|[A-Za-z_][A-Za-z0-9_]*|\d{10,})\s*\]")


def known_signature(ev, text):
    """Classifier for the open known findings of C07 (see known_findings.json).
    huge-array-size: an array size / repeat count >= 10 digits makes the compiler allocate or loop without bound
    (hang, capacity overflow, multiply with overflow).
    unchecked-array-size: an array size given by an identifier or const expression that is not a declared usize
    constant passes the checker and panics the compiler."""
    if ev["outcome"] not in ("panic", "hang", "crash"):
        return None
    if ev["outcome"] == "crash":
        # stack overflow of the recursive front end / compiler: nesting depth or operator chains in the thousands
        depth, cur = 0, 0
        for ch in text:
            if ch in "([{":
                cur += 1
                depth = max(depth, cur)
            elif ch in ")]}":
                cur = max(0, cur - 1)
        chain = max((len(m.group(0)) for m in re.finditer(r"(?:[!\-]\s*){400,}", text)), default=0)
        ops = len(re.findall(r"[-+*/%^&|]", text))
        if depth >= 400 or chain > 0 or ops >= 3000:
            return "stack-depth"
    if ev["outcome"] == "panic" and ev.get("unspec_binding"):
        # the accepted program binds a name to a value of unresolved integer type (see the C05 entry unspecified-binding)
        return "unspecified-binding"
    msg = ev.get("phase", "")
    sizes = SIZE_POS.findall(text)
    if any(HUGE.fullmatch(x) for x in sizes) and (ev["outcome"] in ("hang", "crash") or "overflow" in msg or "capacity" in msg or "alloc" in msg):
        return "huge-array-size"
    if any(not HUGE.fullmatch(x) for x in sizes) and ("Identifier existence checked" in msg or "Not a numeric const expr" in msg or "Option::unwrap()" in msg or "Not a const expr" in msg or "overflow" in msg or "capacity" in msg or ev["outcome"] in ("hang", "crash")):
        return "unchecked-array-size"
    return None


def run(run, harness, replay=None):
    tier = run.tier
    run.cov["rule"] = (
        "design: Scanner.tla models the loops of the scanner over an abstract alphabet (main loop, line comment, nested block comment, digit and word loops) "
        "and TLC checks totality as an invariant (every iteration consumes a character or leaves its loop) for all strings up to the bound, with the scanner "
        "without end-of-input exit in the block comment as refuted negative control; spec->impl: every model string (concretised) is run through scan/check/"
        "compile and the literal parser; TLC enumerates the single-token edit space (prefix, delete, duplicate, swap, substitute / insert each of ~78 token "
        "spellings at every position) applied to corpus programs and literal texts; impl->spec: random token soup and bytes; every run is an event judged by "
        "Trace_FrontEnd.tla (OutcomeOK: result or non-empty errors, spans well formed and on existing lines, prettify succeeds). Runs are executed in supervised "
        "worker processes with a deadline: a hang or crash is an observation. Non-trivial = runs that end in an error list (the error path is exercised)."
    )
    jobs = []
    if replay:
        tpath = os.path.join(run.work, "texts_in.ndjson")
        write_ndjson(tpath, [{"kind": replay.get("kind", "text"), "text": replay["text"]}])
        jobs.append(["texts", tpath])
    else:
        # design model
        r = tlc("Scanner", "Scanner_TRUE.cfg", workers=8, timeout=1200)
        run.add_tlc("Scanner/fixed", r)
        r2 = tlc("Scanner", "Scanner_FALSE.cfg", workers=8, timeout=1200, must_succeed=False)
        run.add_tlc("Scanner/negative-control", r2)
        if r2.ok:
            raise ToolError("negative control of Scanner.tla unexpectedly passes (vacuity)")
        # strings of the scanner model
        n = 4 if tier == "quick" else 6
        name = "Scanner_emit_%d.cfg" % n
        with open(os.path.join(SPEC, name), "w") as f:
            f.write("SPECIFICATION Spec\nCONSTANTS\n  MaxLen = %d\n  EofExitsBlockComment = TRUE\nINVARIANT Terminates\nINVARIANT Emit\nCHECK_DEADLOCK FALSE\n" % n)
        spath = os.path.join(run.work, "strings.ndjson")
        r, cnt = tlc_cases("Scanner", name, spath, workers=8, timeout=3000)
        run.add_tlc("Scanner/emit", r)
        os.remove(os.path.join(SPEC, name))
        jobs.append(["strings", spath])
        epath = os.path.join(run.work, "edits.ndjson")
        r, cnt = tlc_cases("Gen_TokenEdits", "Gen_TokenEdits_%s.cfg" % tier, epath, workers=4, timeout=3000)
        run.add_tlc("Gen_TokenEdits", r)
        jobs.append(["edits", epath, os.path.join(VERIF, "corpus"), "45" if tier == "quick" else "150"])
        # operand substitution space: every name / number of long generated programs replaced by values of other types
        vpath = os.path.join(run.work, "value_edits.ndjson")
        r, cnt = tlc_cases("Gen_TokenEdits", "Gen_TokenEdits_values_%s.cfg" % tier, vpath, workers=4, timeout=3000)
        run.add_tlc("Gen_TokenEdits/values", r)
        jobs.append(["values", vpath, "-", "14" if tier == "quick" else "120"])
        # the operator x operand-type matrix (Gen_OpMatrix.tla): no application, well-typed or not, may crash the front end
        import opmatrix
        mpath = os.path.join(run.work, "opmatrix.ndjson")
        r, cnt = tlc_cases("Gen_OpMatrix", "Gen_OpMatrix.cfg", mpath, workers=4, timeout=1200)
        run.add_tlc("Gen_OpMatrix", r)
        tpath = os.path.join(run.work, "opmatrix_texts.ndjson")
        write_ndjson(tpath, [{"kind": "text", "text": opmatrix.case(c)[1], "prog": "operator-matrix", "edit": c} for c in read_ndjson(mpath)])
        jobs.append(["texts", tpath])
        # constant declarations that refer to themselves, to later or to unknown constants, in every expression form
        ctexts = []
        forms = ["%s", "%s + 1usize", "max(%s, 2usize)", "min(1usize, %s)", "%s - %s"]
        for a in ("A", "B", "C", "zz"):
            for f in forms:
                for order in (0, 1):
                    decls = ["const A: usize = %s;" % (f.replace("%s", a)), "const B: usize = PARTY_0::B;", "const C: usize = B + 1usize;"]
                    if order:
                        decls.reverse()
                    ctexts.append({"kind": "text", "text": "\n".join(decls) + "\npub fn main(x: [u8; A]) -> [u8; C] { [0u8; C] }\n", "prog": "const-references", "edit": {"ref": a, "form": f, "order": order}})
        for ty, v in (("u8", "A"), ("i16", "A + A"), ("bool", "A"), ("u8", "B")):
            ctexts.append({"kind": "text", "text": "const A: %s = %s;\npub fn main(x: u8) -> u8 { x }\n" % (ty, v), "prog": "const-references", "edit": {"ty": ty, "v": v}})
        ctpath = os.path.join(run.work, "const_texts.ndjson")
        write_ndjson(ctpath, ctexts)
        jobs.append(["texts", ctpath])
        # cut-and-continue space: every prefix of construct-covering programs followed by every short token string
        cpath = os.path.join(run.work, "cuts.ndjson")
        r, cnt = tlc_cases("Gen_TokenStrings", "Gen_TokenStrings_%s.cfg" % tier, cpath, workers=4, timeout=3000)
        run.add_tlc("Gen_TokenStrings", r)
        jobs.append(["cuts", cpath])
        jobs.append(["soup", "3000" if tier == "quick" else "100000"])
        # witnesses of repaired front-end defects stay in the input set
        jobs.append(["texts", os.path.join(VERIF, "regress", "c07_texts.ndjson")])
        run.cov["exhaustive"] = True
    import concurrent.futures as cf

    def one(ji):
        j = jobs[ji]
        tp = os.path.join(run.work, "texts_%d.ndjson" % ji)
        op = os.path.join(run.work, "events_%d.ndjson" % ji)
        run_harness(harness, ["frontend-run", j[0], j[1], tp, op, "6000"] + j[2:], env={"VERIF_SEED": run.seed}, timeout=14000)
        return read_ndjson(tp), read_ndjson(op)

    all_texts, all_events = [], []
    with cf.ThreadPoolExecutor(max_workers=4) as ex:
        for texts, events in ex.map(one, range(len(jobs))):
            base = len(all_texts)
            for e in [x for x in events if x["i"] < 0]:
                run.cov["cases_not_run_after_repeated_hangs"] = run.cov.get("cases_not_run_after_repeated_hangs", 0) + e["remaining"]
            events = [x for x in events if x["i"] >= 0]
            for e in events:
                e["i"] += base
            all_texts += texts
            all_events += events
    all_events.sort(key=lambda e: e["i"])
    run.cov["evaluations"] = len(all_events)
    run.cov["distinct_nontrivial"] = len([e for e in all_events if e["outcome"] == "err"])
    for e in all_events[:1]:
        run.sample({"text": all_texts[e["i"]]["text"][:200], "event": e})
    slim = [{k: e[k] for k in ("nlines", "outcome", "phase", "errors", "nerrors", "prettify_ok")} for e in all_events]
    mism = validate_trace(run, "Trace_FrontEnd", "Trace_FrontEnd.cfg", slim, chunk=max(20000, len(slim) // 8 + 1))
    groups = {}
    for idx, detail in mism:
        ev = all_events[idx]
        t = all_texts[ev["i"]]
        ks = known_signature(ev, t["text"])
        if ks and run.known_hit(ks):
            continue
        sig = (",".join(detail) if detail[0] not in ("panic", "hang", "crash") else classify(ev, t)) + (":lit" if t.get("kind") == "lit" else "")
        groups.setdefault(sig, []).append((ev, t))
    for sig, items in sorted(groups.items()):
        items.sort(key=lambda x: len(x[1]["text"]))
        ev, t = items[0]
        run.fail("frontend:" + sig, "%d inputs: %s; shortest input: %r" % (len(items), sig, t["text"][:300]), {"kind": t.get("kind", "text"), "text": t["text"], "observed": ev, "count": len(items), "edit": t.get("edit"), "prog": t.get("prog")})
