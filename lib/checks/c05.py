"""C05 - accepted programs compile to valid circuits whose I/O shape matches their types."""
from vlib import *
from checks.c17 import validate


def run(run, harness, replay=None):
    tier = run.tier
    run.cov["rule"] = (
        "Layout.SizeOf / Encode give the declared I/O shape; generated well-typed fully annotated programs, their literal-suffix-erased variants (every subset of up to "
        "3 erased suffixes, so that unspecified literals flow through let, identifiers, ranges, arrays, tuples, match arms, struct fields, call arguments, casts, "
        "shifts), zero-size / single-array / const-size shapes and corpus programs are given to the real checker; every accepted program is compiled for every pub fn "
        "and the result is an event judged by Trace_Shape5.tla: no compiler panic, circuit passes its own validation, one party per parameter (per element for a "
        "single array parameter) with SizeOf bits, 161 + SizeOf(return) outputs, eval on a zero input succeeds and the output decodes; the same after conversion to "
        "the register form. Converse clause: generated base programs that GarbleTypes.WellTyped accepts must be accepted (Trace_Types.tla). "
        "Non-trivial = accepted programs that were compiled and judged."
    )
    if replay:
        events = [replay["event"]]
    else:
        tp = os.path.join(run.work, "shape.ndjson")
        run_harness(harness, ["shape5-record", tp, "250" if tier == "quick" else "6000", os.path.join(VERIF, "corpus")], env={"VERIF_SEED": run.seed}, timeout=7200)
        events = read_ndjson(tp)
    shape = [e for e in events if e["ev"] == "Shape"]
    run.cov["evaluations"] = len(events)
    run.cov["distinct_nontrivial"] = len([e for e in shape if e["outcome"] == "compiled"])
    run.cov["rejected_variants"] = len([e for e in events if e["ev"] == "Rejected"])
    run.cov["checker_panics_not_judged_here"] = len([e for e in events if e["ev"] == "CheckerPanic"])
    fam = {}
    for e in shape:
        fam[e["family"] + ":" + e["outcome"]] = fam.get(e["family"] + ":" + e["outcome"], 0) + 1
    run.cov["shape_events_by_family"] = fam
    for e in shape[:1]:
        run.sample({k: e[k] for k in ("id", "src", "outcome", "input_gates", "noutputs") if k in e})
    slim = [{k: v for k, v in e.items() if k not in ("src",)} for e in shape]
    mism = validate_trace(run, "Trace_Shape5", "Trace_Shape5.cfg", slim, chunk=max(500, len(slim) // 8 + 1))
    groups = {}
    for idx, detail in mism:
        e = shape[idx]
        groups.setdefault((",".join(detail), e["family"]), []).append(e)
    for (what, fam), items in sorted(groups.items()):
        items.sort(key=lambda e: len(e["src"]))
        e = items[0]
        # open known finding: names bound to un-suffixed literals keep an unresolved integer type (see known_findings.json);
        # identified by the typed program itself (a let / for / match binds a value of unresolved integer type), not by the symptom
        known = [e for e in items if e.get("unspecified_binding")]
        items = [e for e in items if not e.get("unspecified_binding")]
        if known and run.known_hit("unspecified-binding"):
            run.cov["known_unspecified_binding_events"] = run.cov.get("known_unspecified_binding_events", 0) + len(known)
        elif known:
            items = known + items
        if not items:
            continue
        e = items[0]
        run.fail("shape:%s:%s" % (what, fam), "%d accepted programs (%s): %s; smallest:\n%s\nobserved: %s" % (len(items), fam, what, e["src"][:700], json.dumps({k: e[k] for k in ("outcome", "input_gates", "noutputs", "msg") if k in e})[:300]),
                 {"event": e, "count": len(items)})
    # the operator x operand-type matrix: a well-typed application must be accepted, an accepted one must compile
    if not replay:
        from opmatrix import run_matrix
        mev, mmism, mill = run_matrix(run, harness)
        for idx, detail in mmism:
            if detail[0] == "well_typed_program_rejected":
                e = mev[idx]
                run.fail("matrix-converse:" + e["id"], "an operator application that is well-typed under the documented rules is rejected:\n%s\n%s" % (e["src"], e.get("msg", "")[:300]), {"event": e})
        for e in mev:
            if e["accepted"] and e.get("compile_panic"):
                run.fail("matrix-compile:" + e["id"], "an accepted operator application panics the compiler (%s):\n%s" % (e["compile_panic"][:200], e["src"]), {"event": e})
    # converse clause: well-typed fully annotated generator programs must be accepted
    bases = [e for e in events if e["ev"] == "Types"]
    if bases:
        mm, ill = validate(run, bases)
        for idx, detail in mm:
            e = bases[idx]
            run.fail("converse:" + sha(e["src"]), "a fully annotated program that is well-typed under the documented rules is rejected:\n%s\n%s" % (e["src"][:800], e.get("msg", "")[:300]), {"event": e})
