"""C06 - compilation is deterministic: same source and constants, identical circuit."""
from vlib import *


def run(run, harness, replay=None):
    tier = run.tier
    run.cov["rule"] = (
        "design: HashOrder.tla models the sites where the compiler iterates a hash map with the iteration order as a nondeterministic choice; TLC checks "
        "OrderIndependence of the emitted gate requests for the implemented schemes (panic-cache merge that emits nothing, constants bound in source order) "
        "and refutes it for the superseded schemes (negative controls); impl->spec: order-sensitive program shapes (several panic conditions shared by both "
        "branches, struct patterns with several refutable fields, branches assigning several variables, chained constants, join loops), corpus programs and "
        "generated programs are compiled repeatedly in fresh threads and in several processes (every HashMap gets a new seed), with de-duplication on and off; "
        "every compilation is an event [key, run, digest of party sizes + gates + outputs] validated by Trace_Determinism.tla. "
        "Hash seeds cannot be enumerated or injected: this part is sampling. Non-trivial = distinct (program, option) keys compiled at least twice."
    )
    events = []
    if replay:
        events = replay["events"]
    else:
        for site, expect_ok in (("cache_merge", True), ("const_bind", True), ("cache_merge_old", False), ("const_bind_old", False)):
            r = tlc("HashOrder", "HashOrder_%s.cfg" % site, workers=4, timeout=600, must_succeed=False)
            run.add_tlc("HashOrder/" + site, r)
            if r.ok != expect_ok:
                if expect_ok:
                    raise ToolError("HashOrder model for %s unexpectedly fails:\n%s" % (site, r.error))
                raise ToolError("negative control %s unexpectedly passes (vacuity)" % site)
        nproc = 2 if tier == "quick" else 6
        ngen = "150" if tier == "quick" else "3000"
        reps = "6" if tier == "quick" else "12"
        import concurrent.futures as cf

        def one(i):
            tp = os.path.join(run.work, "det_%d.ndjson" % i)
            run_harness(harness, ["determinism", os.path.join(VERIF, "corpus"), os.path.join(VERIF, "regress", "c06_shapes"), tp, ngen, reps, "p%d" % i], env={"VERIF_SEED": run.seed}, timeout=7200)
            return read_ndjson(tp)

        with cf.ThreadPoolExecutor(max_workers=nproc) as ex:
            for evs in ex.map(one, range(nproc)):
                events += evs
    keys = {}
    for e in events:
        keys.setdefault(e["key"], []).append(e)
    run.cov["evaluations"] = len(events)
    run.cov["distinct_nontrivial"] = len([k for k, v in keys.items() if len(v) >= 2])
    for e in events[:2]:
        run.sample(e)
    mism = validate_trace(run, "Trace_Determinism", "Trace_Determinism.cfg", events, chunk=10**9)
    seen = set()
    for idx, detail in mism:
        d = detail
        key = d["key"]
        if key in seen:
            continue
        seen.add(key)
        evs = keys[key]
        digs = sorted(set(e["digest"] for e in evs))
        run.fail("nondeterministic:" + key, "%d different results for %s: %s" % (len(digs), key, digs[:4]), {"events": evs[:40], "observed": digs})
    for k, evs in keys.items():
        if any(e["digest"].startswith("panic") for e in evs) and k not in seen:
            run.fail("compile-panic:" + k, "compiler panicked: %s" % evs[0]["digest"][:200], {"events": evs[:10]})
