"""C13 - join / join_iter compute exactly the sorted-merge join and hide match positions."""
from vlib import *
import evalcheck


def cfg(run, mode, maxlen, maxn, keymax):
    name = "Bitonic_gen_%s_%d_%d_%d.cfg" % (mode, maxlen, maxn, keymax)
    with open(os.path.join(SPEC, name), "w") as f:
        f.write('SPECIFICATION Spec\nCONSTANTS\n  Mode = "%s"\n  MaxLen = %d\n  MaxN = %d\n  KeyMax = %d\nINVARIANT NetworkSorts\nINVARIANT Emit\nCHECK_DEADLOCK FALSE\n' % (mode, maxlen, maxn, keymax))
    return name


def run(run, harness, replay=None):
    tier = run.tier
    run.cov["rule"] = (
        "design: Bitonic.tla models push_bitonic_merger / push_bitonic_sorter and the join pipeline (padding, tag bit, reversed second array, windows) and TLC "
        "checks them against the sorted-merge join on all 0/1 inputs (zero-one principle) and all strictly ascending / non-descending key sequences in the bound; "
        "spec->impl: every enumerated input is replayed: 0/1 sequences through the real networks (verif_hooks), key-set pairs through compiled for-join programs "
        "(body records the pairs in order, divides by a payload so that only joined rows may panic; judged by Trace_Eval.tla = GarbleSem's for-join) and through "
        "compiled `join` built-in programs (judged by Trace_Join.tla: flagged entries exactly the matches, unflagged entries zero, flags sorted); "
        "key types u8, u16, (u8,u8), [u8;2]. Non-trivial = input pairs with at least one common key."
    )
    if replay:
        if "src" in replay:
            evalcheck.run_eval_check(run, harness, replay, [], [], run.cov["rule"])
            return
        cases = [replay["case"]]
        cpath = os.path.join(run.work, "cases.ndjson")
        write_ndjson(cpath, cases)
        kinds = [(cpath, replay.get("kts", "u8,u16,tup,arr"))]
        direct = []
    else:
        kinds, direct = [], []
        for mode, maxlen in (("sort01", 9 if tier == "quick" else 13), ("merge01", 16)):
            name = cfg(run, mode, maxlen, 1, 1)
            cpath = os.path.join(run.work, mode + ".ndjson")
            r, n = tlc_cases("Bitonic", name, cpath, workers=8, timeout=3000)
            run.add_tlc("Bitonic/" + mode, r)
            os.remove(os.path.join(SPEC, name))
            direct.append(cpath)
        for mode, maxn, keymax in (("join", 3 if tier == "quick" else 5, 4 if tier == "quick" else 6), ("joindup", 3 if tier == "quick" else 4, 3 if tier == "quick" else 4)):
            name = cfg(run, mode, 1, maxn, keymax)
            cpath = os.path.join(run.work, mode + ".ndjson")
            r, n = tlc_cases("Bitonic", name, cpath, workers=8, timeout=3000)
            run.add_tlc("Bitonic/" + mode, r)
            os.remove(os.path.join(SPEC, name))
            kinds.append((cpath, "u8,u16,tup,arr"))
        if tier == "quick":
            # larger key sets (result lengths up to 9, beyond the first power of two) sampled from the thorough space
            name = cfg(run, "join", 1, 5, 6)
            cpath = os.path.join(run.work, "join_large.ndjson")
            r, n = tlc_cases("Bitonic", name, cpath, workers=4, timeout=3000, simulate="num=700", depth=3, seed=int(run.seed) + 7, max_cases=700)
            run.add_tlc("Bitonic/join-sampled", r)
            os.remove(os.path.join(SPEC, name))
            kinds.append((cpath, "u8,u16,tup,arr"))
        run.cov["exhaustive"] = True
    for cpath in direct:
        rpath = cpath + ".res"
        run_harness(harness, ["bitonic-direct", cpath, rpath])
        for x in read_ndjson(rpath):
            if x.get("summary"):
                run.cov["evaluations"] += x["n"]
                run.cov["traces_validated_against_impl"] += x["n"]
            else:
                run.fail("network:" + sha(x["case"]), "bitonic network output differs from the model on %s: %s" % (json.dumps(x["case"]), json.dumps(x["observed"])[:200]), {"case": x["case"], "observed": x["observed"]})
    for cpath, kts in kinds:
        epath, jpath = cpath + ".eval", cpath + ".join"
        run_harness(harness, ["join-record", cpath, epath, jpath, kts], env={"VERIF_SEED": run.seed})
        cases = read_ndjson(cpath)
        run.cov["distinct_nontrivial"] += len([c for c in cases if c.get("pairs") or c.get("common")])
        evs = read_ndjson(epath)
        for e in evs:
            if e["ev"] != "Eval":
                run.fail("joiniter-compile:" + sha(e.get("src", "")), "for-join program rejected or crashed: %s" % json.dumps(e)[:400], {"event": e})
        evalcheck.judge(run, evs)
        jevs = read_ndjson(jpath)
        good = [e for e in jevs if e["ev"] == "Join"]
        for e in jevs:
            if e["ev"] != "Join":
                run.fail("join-crash:" + sha(e.get("src", "")), "join program rejected or crashed: %s" % json.dumps(e)[:400], {"event": e})
        run.cov["evaluations"] += len(good)
        for e in good[:1]:
            run.sample({"src": e["src"], "a": e["a"], "b": e["b"]})
        mism = validate_trace(run, "Trace_Join", "Trace_Join.cfg", good, chunk=max(500, len(good) // 8 + 1))
        for idx, detail in mism:
            e = good[idx]
            run.fail("join:" + sha([e["src"], e["a"], e["b"]]), "join built-in violates %s on a=%s b=%s (%s)" % (detail, json.dumps(e["a"]), json.dumps(e["b"]), e["src"].split("\n")[0]), {"event": {k: e[k] for k in e if k != "prog"}, "observed": detail})
