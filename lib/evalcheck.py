"""Shared machinery of C01 / C02 / C14: record Eval events from the real compiler, validate them with
Trace_Eval.tla, classify and report mismatches."""
from vlib import *
from evaltools import describe, decode_out

BITS = {"u8": 8, "i8": 8, "u16": 16, "i16": 16, "u32": 32, "i32": 32, "usize": 32, "u64": 64, "i64": 64}


def walk(node, fn):
    if isinstance(node, dict):
        fn(node)
        for v in node.values():
            walk(v, fn)
    elif isinstance(node, list):
        for v in node:
            walk(v, fn)


def known_signature(ev, bad):
    """Classifier for open known findings that random programs can run into.
    neg-const-mul-min: expected ok, observed Overflow at the span of a multiplication by a negative
    literal constant c with |c| < width (see known_findings.json)."""
    if bad["expected"]["kind"] != "ok":
        return None
    run = ev["runs"][bad["run"] - 1]
    sigs = set()
    for c in bad["cfgs"]:
        o = decode_out(run["outs"][c])
        if not (o.get("panicked") and o.get("reason") == 1):
            return None
        hit = []

        def f(n):
            if n.get("k") == "bin" and n.get("op") == "mul" and n.get("m") == o["m"]:
                for side in ("l", "r"):
                    x = n[side]
                    if isinstance(x, dict) and x.get("k") == "num" and x["v"] < 0 and n["ty"].get("k") == "int" and -x["v"] < BITS.get(n["ty"]["t"], 0):
                        hit.append(1)

        walk(ev["prog"], f)
        if not hit:
            return None
        sigs.add("neg-const-mul-min")
    return sigs.pop() if len(sigs) == 1 else None


def record(run, harness, sources):
    """sources: list of harness arg lists; returns the list of events"""
    events = []
    for i, args in enumerate(sources):
        tp = os.path.join(run.work, "rec_%d.ndjson" % i)
        a = [x if x != "@OUT" else tp for x in args]
        run_harness(harness, a, env={"VERIF_SEED": run.seed}, timeout=7200)
        events += read_ndjson(tp)
        os.remove(tp)
    return events


def judge(run, events, pid_filter=None):
    good = [e for e in events if e["ev"] == "Eval"]
    other = [e for e in events if e["ev"] != "Eval"]
    run.cov["programs"] = run.cov.get("programs", 0) + len(good)
    run.cov["compile_fail"] = run.cov.get("compile_fail", 0) + len([e for e in other if e["ev"] == "CompileFail"])
    run.cov["skipped_programs"] = run.cov.get("skipped_programs", 0) + len([e for e in other if e["ev"] == "Skip"])
    nruns = sum(len(e["runs"]) for e in good)
    run.cov["evaluations"] += nruns * 4
    # lit_err runs: the implementation refused / crashed on a canonical argument value
    for e in good:
        for r in e["runs"]:
            if "lit_err" in r:
                run.fail("literal:" + sha([e["src"], r["args"]]), "canonical argument refused: %s" % r["lit_err"][:300], {"src": e["src"], "inputs": [r["args"]], "observed": r["lit_err"]})
        e["runs"] = [r for r in e["runs"] if "lit_err" not in r]
    if not good:
        return
    nchunks = 8 if len(good) > 400 else 2
    # validate_trace with OOM accounting: reuse the MISMATCH channel, count OOM lines separately
    mism = validate_trace_oom(run, good, chunk=max(50, len(good) // nchunks + 1))
    nontrivial = 0
    for e in good:
        # non-trivial: the program has at least one parameter-dependent output bit observed (two runs differ)
        outs = set(json.dumps(r["outs"]["ssa_on"]) for r in e["runs"])
        if len(outs) > 1:
            nontrivial += 1
    run.cov["distinct_nontrivial"] += nontrivial
    for e in good[:1]:
        run.sample({"id": e["id"], "src": e["src"], "first_run": {"args": e["runs"][0]["args"], "out_ssa_on": decode_out(e["runs"][0]["outs"]["ssa_on"])} if e["runs"] else None})
    for idx, detail in mism:
        ev = good[idx]
        items = detail if isinstance(detail, list) else list(detail.values())
        unknown = []
        for b in items:
            sig = known_signature(ev, b)
            if sig and run.known_hit(sig):
                continue
            unknown.append(b)
        if not unknown:
            continue
        inputs = [ev["runs"][b["run"] - 1]["args"] for b in unknown]
        key = "eval:" + sha([ev["src"], inputs[0]])
        kinds = set()
        for b in unknown:
            kinds.add("input-encoding" if not b["enc_ok"] else ("value" if b["expected"]["kind"] == "ok" else ("panic" if b["expected"]["kind"] == "panic" else b["expected"]["kind"])))
        run.fail(key, "compiled circuit disagrees with the source semantics (%s):\n%s" % (",".join(sorted(kinds)), describe(ev, unknown, 1)),
                 {"id": ev["id"], "src": ev["src"], "inputs": inputs, "expected": [b["expected"] for b in unknown][:4],
                  "observed": [{c: decode_out(ev["runs"][b["run"] - 1]["outs"][c]) for c in b["cfgs"]} for b in unknown][:4]})


_OOM = re.compile(r'^<<"OOM", (\d+), (\d+)>>$')


def validate_trace_oom(run, events, chunk):
    jobs, offs = [], []
    for ci, part in enumerate(chunks(events, chunk)):
        path = os.path.join(run.work, "trace_eval_%d_%d.ndjson" % (len(run.cov["tlc_runs"]), ci))
        write_ndjson(path, part)
        jobs.append(dict(module="Trace_Eval", cfg="Trace_Eval.cfg", workers=1, dfs=True, env={"TRACE": path}, timeout=7200, xmx="3g", xss="1g"))
        offs.append(ci * chunk)
    results = parallel_tlc(jobs, maxpar=8)
    mism, gen, dist, wall, oom = [], 0, 0, 0.0, 0
    for off, r in zip(offs, results):
        gen += r.generated
        dist += r.distinct
        wall = max(wall, r.wall)
        for ln in r.lines:
            m = MIS_RE.match(ln)
            if m:
                mism.append((off + int(m.group(1)) - 1, json.loads(json.loads(m.group(2)))))
                continue
            m = _OOM.match(ln)
            if m:
                oom += int(m.group(2))
    run.cov["states"] += dist
    run.cov["transitions"] += gen
    run.cov["out_of_model"] += oom
    run.cov["tlc_runs"].append({"spec": "Trace_Eval", "generated": gen, "distinct": dist, "wall_s": round(wall, 1), "events": len(events)})
    run.cov["traces_validated_against_impl"] += sum(len(e["runs"]) for e in events)
    return mism


def regress_cases(pid):
    cases = []
    for c in read_ndjson(os.path.join(VERIF, "regress", "eval.ndjson")):
        if pid in c.get("props", []):
            cases.append(c)
    return cases


def run_eval_check(run, harness, replay, sources_quick, sources_thorough, rule):
    run.cov["rule"] = rule
    pid = run.pid
    if replay:
        cpath = os.path.join(run.work, "replay_cases.ndjson")
        write_ndjson(cpath, [{"id": replay.get("id", "replay"), "src": replay["src"], "inputs": replay["inputs"]}])
        events = record(run, harness, [["eval-file", cpath, "@OUT"]])
        judge(run, events)
        return
    # deterministic regression set first (witnesses of fixed defects: they alarm if they fail again)
    cpath = os.path.join(run.work, "regress_cases.ndjson")
    write_ndjson(cpath, regress_cases(pid))
    events = record(run, harness, [["eval-file", cpath, "@OUT"]])
    for e in events:
        if e["ev"] != "Eval":
            run.fail("regress-compile:" + e.get("id", "?"), "regression witness does not compile: %s" % json.dumps(e)[:400], {"event": e})
    judge(run, events)
    srcs = sources_quick if run.tier == "quick" else sources_thorough
    events = record(run, harness, srcs)
    judge(run, events)
