"""Helpers to present Eval mismatches (decoding of observed outputs is for humans only; the verdict
is TLC's)."""
import json


def uval(bits):
    v = 0
    for b in bits:
        v = (v << 1) | b
    return v


def decode_out(out):
    if out and out[0] == 9:
        return {"crash": out[1]}
    p = out[0] == 1
    d = {"panicked": p}
    if p:
        d["reason"] = uval(out[1:33])
        d["m"] = [uval(out[33:65]), uval(out[65:97]), uval(out[97:129]), uval(out[129:161])]
    else:
        d["value_bits"] = "".join(str(b) for b in out[161:])
    return d


def describe(ev, detail, maxruns=2):
    """ev: Eval event, detail: list of bad runs from Trace_Eval"""
    lines = ["program %s:" % ev["id"], ev["src"]]
    items = detail if isinstance(detail, list) else list(detail.values())
    for d in items[:maxruns]:
        run = ev["runs"][d["run"] - 1]
        lines.append("  args=%s" % json.dumps(run["args"]))
        lines.append("  expected=%s" % json.dumps(d["expected"]))
        for c in d["cfgs"][:2]:
            lines.append("  observed[%s]=%s" % (c, json.dumps(decode_out(run["outs"][c]))))
        if not d["enc_ok"]:
            lines.append("  input encoding differs from Layout.Encode: in_bits=%s" % json.dumps(run["in_bits"]))
    return "\n".join(lines)
