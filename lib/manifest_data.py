HOOK_COMMITS = ["0cc1f16"]
NOTES = "All checks: bin/check <ID> --tier quick|thorough [--replay file]; exit 0/1/2 (2 = TOOL-ERROR). See DESIGN.md."
NOT_APPLICABLE = {}
CHECKS = {
    "C16": {
        "text": "TLC enumerates every small SSA and register circuit value (ill-formed ones included) and checks, at the design level, that the transcribed validation (Validate.tla) implies safe evaluation on the register/SSA step machines of CircuitSem.tla (invariant ValidImpliesSafe); every enumerated value is then replayed into the real validate()/eval() with the oracle's EvalSafe verdict; validate() must also accept every compiler and converter product of the corpus.",
        "design_ref": "DESIGN.md §5 C16",
        "note": "Bounded-exhaustive value space (quick: <=2 gates/instructions, references 0..2/0..4, <=2 parties of size <=1, max_reg_count 0..3; thorough: larger). Trusted: JSON<->circuit conversion in the harness; TLC.",
        "technique": "TLC bounded-exhaustive enumeration of circuit values with oracle verdict, replayed into the implementation; design-level invariant ValidImpliesSafe",
    },
    "C10": {
        "text": "TLC model-checks the register-allocator design model (RegAlloc.tla, one action per SSA wire, mirrors find_out_reg) against the circuit semantics on every SSA circuit within the bound, emits every such circuit, and validates the real converter's output for each of them (and for compiled corpus circuits) against Trace_Reg.tla, which re-executes the logged instructions on the register step machine with an explicit defined-set.",
        "design_ref": "DESIGN.md §5 C10",
        "note": "Bounded: quick <=2 gates/<=2 input bits, thorough <=3 gates/<=3 input bits, <=2 outputs, plus compiled corpus circuits <=3000 gates on sampled inputs. Trusted: JSON conversion of circuit values in harness/src/circ.rs; TLC.",
        "technique": "TLA+ design model checked by TLC + TLC trace validation of the real conversion results",
    },
}
