HOOK_COMMITS = ["0cc1f16"]
FIX_COMMITS = ["f6ef902", "7953ad1", "5a73e74", "74bd988", "162c4e5", "d681b06", "d1e67ed", "f178a91", "418e2ff", "882956a", "d9c0ebc", "11b0018", "91d1a50", "a9847ff", "743a30c", "d549723", "3e1966b", "816a010", "7ee2a7b", "bd3a255", "d87f4bc", "631a338", "de5bff3", "946afa5", "d41c9aa", "06c6f23", "210e7e2", "c26765c", "9c63f25", "c602bea", "370a097", "8bdfd58", "835a652", "1838bee", "af85037"]
NOTES = "All checks: bin/check <ID> --tier quick|thorough [--replay file]; exit 0/1/2 (2 = TOOL-ERROR). See DESIGN.md."
NOT_APPLICABLE = {}
_EVAL_NOTE = "Program-level values of 32/64-bit types are restricted to magnitude < 2^30 (TLC integers); runs outside the modelled fragment are counted as out_of_model and not judged. The projection restores the surface forms <=, >= and op= from the parser's rewritten form (recognised by their shared span), and the oracle evaluates their operands once. Trusted: the projection typed AST -> JSON (harness/src/proj.rs), JSON value -> Literal conversion, TLC."
CHECKS = {
    "C07": {
        "text": "Scanner.tla models the scanner's loops as a state machine over an abstract alphabet and TLC checks totality as an invariant for all strings up to the bound (the scanner without end-of-input exit in the block-comment loop is the refuted negative control); every model string, every single-token edit (TLC-enumerated: prefix, delete, duplicate, swap, substitute / insert ~78 token spellings at every position) of corpus and generated programs and of literal texts, and random token soup / bytes are run through scan, parse, check, compile, prettify and the argument parser in supervised worker processes with a deadline; every run is an event judged by Trace_FrontEnd.tla (OutcomeOK). Further spaces: the cut-and-continue space (Gen_TokenStrings.tla: every prefix of construct-covering programs followed by every short token string), operand substitution in long generated programs, the operator x operand-type matrix (Gen_OpMatrix.tla), constant declarations that refer to themselves / later / unknown constants; a hang or crash is confirmed by re-running the input alone.",
        "design_ref": "DESIGN.md §5 C07",
        "note": "Only the scanner's loop structure is modelled as a state machine; the parser is exercised through the enumerated perturbations, not modelled. Deadline 6 s per input; after 12 hangs/crashes in one batch the remaining inputs of that batch are not run (counted in the evidence). Deep nesting and very large inputs are outside the explored space. The token splitter used to cut corpus programs is the harness's own.",
        "technique": "TLA+ state machine of the scanner checked by TLC; TLC-enumerated perturbation space replayed into the front end; TLC trace validation of the outcomes",
    },
    "C06": {
        "text": "HashOrder.tla models the hash-map iteration sites of the compiler with the iteration order as a nondeterministic choice and TLC checks OrderIndependence of what is emitted (with the superseded order-dependent schemes as refuted negative controls); order-sensitive program shapes, corpus programs and generated programs are compiled repeatedly in fresh threads and several processes with both option settings, and every compilation is validated by Trace_Determinism.tla (a state machine that remembers the first digest per key).",
        "design_ref": "DESIGN.md §5 C06",
        "note": "Hash seeds cannot be enumerated or injected without rewriting lines in /repo: the implementation half is sampling over seeds (6-12 compilations x 2-6 processes per program and option). The digest (FNV over party sizes, gates, outputs) is computed by the harness.",
        "technique": "TLA+ model of iteration-order nondeterminism checked by TLC + TLC trace validation of repeated real compilations",
    },
    "C12": {
        "text": "ConstEval.tla defines the value of a top-level constant (wrapping arithmetic of the declared type at every sub-expression, references to earlier constants); Gen_Consts.tla enumerates declaration shapes x boundary assignments x fault modes of the supplied map and emits the expected values or the exact set of constants an error must name; the harness compiles every case six times with fresh maps, evaluates it and compares with the expected bits, and with the program in which every constant is replaced by its value. Const-sized parameters (also nested in a fixed-size array and in a tuple) are supplied through the literal API and read back through the circuit.",
        "design_ref": "DESIGN.md §5 C12",
        "note": "Types u8, i8, u16, i16 for arithmetic; usize only for sizes (array size, loop trip count) with values 0..3 and no wrap; bool constants and single-array multi-party programs are not enumerated. Trusted: rendering of declarations and construction of the constants map in harness/src/c12.rs, TLC.",
        "technique": "TLC-enumerated const programs and fault modes with oracle values replayed into compile_with_constants",
    },
    "C08": {
        "text": "Patterns.tla defines Matches / Exhaustive / FirstMatch / WitnessOK over finite point domains (every value of bool, u8, i8; abstract boundary points with gap representatives for wider types; products for tuples, an enum and a struct with ..); Gen_Arms.tla builds every arm list up to the bound from boundary-directed pattern pools and emits verdict and deciding arm per value; the real checker's verdict must be equal, accepted matches are evaluated on every listed value, and the missing-case witnesses of rejected matches are validated by TLC (Trace_Witness.tla).",
        "design_ref": "DESIGN.md §5 C08",
        "note": "Bounds: <=2 arms with the full pool and <=3 arms with a reduced pool (quick), <=3 arms full pool (thorough); wide types through abstract points (exact for interval patterns whose end points are cluster points); signed non-negative literals written with and without suffix. Trusted: pattern/type rendering and witness -> abstract pattern conversion in harness/src/c08.rs, TLC.",
        "technique": "TLC-enumerated arm lists with oracle verdicts replayed into checker and compiler; TLC validation of the checker's witnesses",
    },
    "C09": {
        "text": "Layout.tla is the documented bit layout; Gen_Literals.tla enumerates the bounded type universe x boundary values and, for each value, the expected bits and the adversarial family of literal spellings with their denotation (canonical / same value / no value); the harness replays every spelling into literal_arg, set_literal, as_bits, from_unwrapped_bits, to_string+parse_arg, text perturbations and the identity program. EvalSession.tla models an evaluation session (set_<prim>, set_literal, parse_literal, run); TLC checks LiteralsAreChecked and every call history of the bound is replayed into a real Evaluator (same outcome of every call, no panic).",
        "design_ref": "DESIGN.md §5 C09",
        "note": "Type universe fixed in Gen_Literals.tla (all primitives, arrays of 0-3, tuples of 0-3, one struct, enums with 3 and 5 variants, one level of nesting in thorough); wide integer values restricted to magnitudes TLC can hold. Trusted: JSON -> Literal conversion in harness/src/c09.rs, TLC.",
        "technique": "TLC-enumerated values and literal spellings with oracle bits, replayed into the literal API",
    },
    "C11": {
        "text": "BristolIO.tla defines the Bristol file model (WellFormedBristol, EvalBristol) and transcribes format_as_bristol; TLC checks the export design on every small SSA circuit (de-aliasing, renumbering, outputs last) and emits each circuit for the real exporter and importer; the written file (parsed row by row) and the re-imported circuit are validated by Trace_Bristol.tla, also for compiled corpus programs; importer totality on the TLC-enumerated edit space of a Bristol text applied to three base exports.",
        "design_ref": "DESIGN.md §5 C11",
        "note": "Bounds: SSA circuits <= 2 (quick) / 3 (thorough) gates, <= 3 outputs; corpus exports <= 600 gates and <= 10 input bits (all assignments). The row parser of the exported text in harness/src/c11.rs is trusted.",
        "technique": "TLA+ export design model checked by TLC; TLC trace validation of real exports/imports; TLC-enumerated file perturbations replayed into the importer",
    },
    "C13": {
        "text": "Bitonic.tla models the compare-exchange networks (merger with m = previous power of two, sorter with descending/ascending halves) and the join pipeline (padding, tag bit, reversed second array, adjacent windows) and TLC checks them against the sorted-merge join on all 0/1 inputs and all small ascending / non-descending key sequences; every enumerated input is replayed into the real networks (verif_hooks), into compiled for-join programs (judged by GarbleSem's for-join through Trace_Eval.tla: pairs, order, effects and panics only for joined rows) and into compiled `join` built-in programs (Trace_Join.tla: flagged entries exactly the matches, each common key once, unflagged entries zero, flags sorted). Associated data of the join built-in varies in width and arity between the two sides; the quick tier also samples key sets with result lengths up to 9.",
        "design_ref": "DESIGN.md §5 C13",
        "note": "Bounds: networks on all 0/1 inputs up to length 9 (quick) / 13 (thorough) and power-of-two mergers up to 16; key sets n,m <= 3 (quick) / 5 (thorough) over a small key domain containing 0; key types u8, u16, (u8,u8), [u8;2]. Trusted: program templates in harness/src/c13.rs, projection, TLC.",
        "technique": "TLA+ design model of the bitonic networks and join pipeline checked by TLC; TLC-enumerated inputs replayed into the implementation; TLC trace validation of join results",
    },
    "C01": {
        "text": "GarbleSem.tla is a definitional interpreter of the source language over an explicit state (scope stack, panic set) and Layout.tla the documented bit layout; the real compiler's output for corpus programs and for thousands of generated well-typed programs, in all four configurations, is recorded on boundary-biased inputs and every run is validated by TLC (Trace_Eval.tla): arguments re-encoded, program re-executed by the oracle, output bits compared. Spec->impl family: the arm lists of Gen_Arms.tla are evaluated on every value of the scrutinee type (first matching arm decides). Generated programs contain for-join loops over literal tables, un-suffixed patterns and effect blocks in operands and indices.",
        "design_ref": "DESIGN.md §5 C01",
        "note": _EVAL_NOTE,
        "technique": "TLA+ executable source semantics; TLC trace validation of recorded compile+eval runs of the real compiler",
    },
    "C02": {
        "text": "Same oracle as C01 with the panic clauses judged: panic flag iff GarbleSem.Run fails, reason equal, reported span that of an admissible first failing operation (the oracle carries the set of admissible first failures where the language leaves the order free), no panic from untaken branches/arms/short-circuited operands; failing-site-dense generated programs and regression witnesses of the repaired panic-record defects. Design + spec->impl: PanicRecord.tla (running panic record with its condition cache, driven as compile.rs does for sequences, if/else, &&, || and three-clause matches) is model-checked (FirstFailureWins, PanicMonotone; the superseded cache schemes are refuted controls) and every panic skeleton of the bound plus simulated longer ones is rendered to a program and evaluated in every world.",
        "design_ref": "DESIGN.md §5 C02",
        "note": _EVAL_NOTE,
        "technique": "TLA+ executable source semantics with admissible-first-failure sets; TLC trace validation of recorded runs",
    },
    "C14": {
        "text": "Same oracle as C01 on mutation-heavy generated programs whose main returns every variable in scope: GarbleSem.tla threads an explicit scope stack through blocks, branches, arms, loop iterations and calls (by-value, callee sees constants and parameters only), so any leak of a binding, any aliasing of copies or any wrong merge after control flow changes an observed output. Design + spec->impl: CompileScheme.tla (environment threading: clone + mux for if / && / match clauses, scope per block and per loop iteration, callee sees constants only) is model-checked (SchemeRefinesSem; three superseded schemes are refuted controls) and every environment skeleton of the bound plus simulated longer ones is rendered and evaluated in every world.",
        "design_ref": "DESIGN.md §5 C14",
        "note": _EVAL_NOTE,
        "technique": "TLA+ executable source semantics with explicit scope stack; TLC trace validation of recorded runs",
    },
    "C03": {
        "text": "IntOps.tla defines checked fixed-width arithmetic, shifts, comparisons and casts; TLC emits the complete u8/i8 result tables (16 binary operators x 65536 pairs x 2 types, unary, Boolean, all casts from bool/8/16-bit sources over all source values) which the harness replays into compiled programs in the three operand forms; operands of 16/32/64-bit types and usize (boundary-directed + random) are evaluated on compiled programs and every event is validated by Trace_IntOps.tla on byte limbs (exact sums/products, relational division identity).",
        "design_ref": "DESIGN.md §5 C03",
        "note": "Exhaustive for 8-bit operand pairs (constants: boundary set in quick, all 256 in thorough) and 8/16-bit cast sources; sampled for wider types. Trusted: source rendering of the tiny operator programs, bit<->integer conversion in the harness, TLC.",
        "technique": "TLC-generated exhaustive oracle tables replayed into the implementation + TLC trace validation of wide-type operator events",
    },
    "C04": {
        "text": "Builder.tla transcribes the gate builder (constant folding, gate cache, negation map, every XOR/AND rewrite rule in code order, pruning and renumbering) as a state machine; TLC checks ResponseSound, AppendOnly, BuildPreservesOutputs over all request sequences in the bound for both cache modes. Every request history of the bound, plus simulated longer histories with macro requests, is replayed into the real CircuitBuilder and the built circuit is compared with the literal truth tables; random 50-400-request sequences recorded from the real builder are validated step by step by Trace_Builder.tla; corpus programs compiled with de-duplication on/off are compared (Trace_OnOff.tla). Trace_OnOff.tla classifies an on/off difference as payload_only (no circuit reports a panic and only reason / location bits of the panic record differ: open known finding) or observable.",
        "design_ref": "DESIGN.md §5 C04",
        "note": "Bounds: design model 2 inputs <=3-5 requests, 3 inputs <=3-4; replay exhaustive for 2 inputs/3 requests, sampled beyond; truth tables over <=4 inputs. Trusted: verif_hooks wrapper (thin delegation), harness replay loop, TLC.",
        "technique": "TLA+ state machine of the builder model-checked by TLC; TLC-generated request histories replayed into the real builder; TLC trace validation of recorded request sequences",
    },
    "C15": {
        "text": "BuildShape (no dead gates, no AND with constant/equal operands, no duplicate AND pairs under de-duplication) is checked by TLC as an invariant of Builder.tla's Build over all request sequences of the bound; the circuits the real builder/compiler produce for replayed histories, random sequences, corpus programs and data-movement programs are logged and judged by Trace_Shape.tla, including zero AND gates for movement programs.",
        "design_ref": "DESIGN.md §5 C15",
        "note": "Movement programs are a fixed hand-written family (corpus_movement/) plus what later generators add; compiled circuits above a gate cap are not judged (TLC cost). Trusted: circuit JSON conversion, TLC.",
        "technique": "TLC invariant on the builder design model + TLC trace validation of logged built circuits against shape predicates",
    },
    "C05": {
        "text": "Layout.tla (SizeOf) is the oracle for the I/O shape; every program the real checker accepts is compiled for every pub fn (and for several assignments of its external constants) and the observation - parties and bits per party, output count, validate() of the SSA and the register form, evaluation on the zero and a random valid input, decoding by the declared return type - is one event judged by Trace_Shape5.tla. Program sources: corpus, ~1900 programs over zero-sized / single-array / const-sized parameter and return types, generated fully annotated programs, and for each of them every single literal-suffix erasure (up to 16 sites), random pairs / triples and the all-erased variant. Converse clause: generated programs and type-preserving rewrites of them (block, if true, let, tuple access, array index, match, identity cast, operand swap at random expression sites) that GarbleTypes.WellTyped accepts must be accepted by the checker (Trace_Types.tla). The operator x operand-type matrix (Gen_OpMatrix.tla): well-typed applications must be accepted and compile; an erased variant typed exactly like the annotated program must compute the same outputs.",
        "design_ref": "DESIGN.md \u00a75 C05",
        "note": "Open known finding unspecified-binding (names bound to un-suffixed literals keep 32 wires); events of programs with such a binding are identified from the typed program and not judged. Programs rejected by the checker are only counted. Checker panics on erased variants are counted here and judged by C07. Trusted: harness/src/printer.rs (validated by print -> parse -> project round trip on every base program), Proj::ty, TLC.",
        "technique": "trace validation of compile observations against the TLA+ layout oracle; TLA+ static semantics as acceptance oracle",
    },
    "C17": {
        "text": "GarbleTypes.tla is an executable specification of the static semantics for fully annotated programs (all types re-derived from declarations and literal suffixes; documented rules only). Generated well-typed programs are projected to ASTs; every applicable site receives every rule-breaking edit of 33 kinds (operand / argument / return / branch / pattern types, conditions, unknown names, immutability, argument / field / variant arity, duplicated fields, tuple index and tuple pattern arity, refutable let / for patterns, literal and pattern literals out of range, direct and mutual recursion, unused private fn, pub fn without parameters), thorough adds pairs of edits; each mutant is rendered, checked by the real checker and is one event of Trace_Types.tla: a mutant that WellTyped rejects must be rejected with errors (accepted, or a checker panic, is a violation). The operator x operand-type matrix (Gen_OpMatrix.tla, 6285 applications) is judged in both directions.",
        "design_ref": "DESIGN.md \u00a75 C17",
        "note": "Only mutants the specification itself judges ill-typed are demanded to be rejected (coverage reports them per rule); accepted mutants must round-trip (text parses back to the mutant AST) to be judged. Not modelled: const expressions beyond literals, join, generics-free language has no further rules. Trusted: printer, projection, TLC.",
        "technique": "TLA+ static-semantics oracle over mutation-generated programs, real checker verdicts validated as a trace",
    },
    "C16": {
        "text": "TLC enumerates every small SSA and register circuit value (ill-formed ones included) and checks, at the design level, that the transcribed validation (Validate.tla) implies safe evaluation on the register/SSA step machines of CircuitSem.tla (invariant ValidImpliesSafe); every enumerated value is then replayed into the real validate()/eval() with the oracle's EvalSafe verdict; validate() must also accept every compiler and converter product of the corpus.",
        "design_ref": "DESIGN.md §5 C16",
        "note": "Bounded-exhaustive value space (quick: <=2 gates/instructions, references 0..2/0..4, <=2 parties of size <=1, max_reg_count 0..3; thorough: larger). Trusted: JSON<->circuit conversion in the harness; TLC.",
        "technique": "TLC bounded-exhaustive enumeration of circuit values with oracle verdict, replayed into the implementation; design-level invariant ValidImpliesSafe",
    },
    "C10": {
        "text": "TLC model-checks the register-allocator design model (RegAlloc.tla, one action per SSA wire, mirrors find_out_reg) against the circuit semantics on every SSA circuit within the bound, emits every such circuit, and validates the real converter's output for each of them (and for compiled corpus circuits) against Trace_Reg.tla, which re-executes the logged instructions on the register step machine with an explicit defined-set.",
        "design_ref": "DESIGN.md §5 C10",
        "note": "Bounded: quick <=2 gates/<=2 input bits, thorough <=3 gates/<=3 input bits, <=2 outputs, plus compiled corpus circuits <=3000 gates on sampled inputs. Trusted: JSON conversion of circuit values in harness/src/circ.rs; TLC.",
        "technique": "TLA+ design model checked by TLC + TLC trace validation of the real conversion results",
    },
}
