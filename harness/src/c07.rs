//! C07: the front end on arbitrary / perturbed texts, in supervised worker processes.
use crate::util::*;
use garble_lang::{CompileTimeError, Error};
use serde_json::{json, Value};
use std::io::{BufRead, BufReader, Write};
use std::process::{Command, Stdio};
use std::time::{Duration, Instant};

const SUBST: [&str; 78] = [
    "x", "main", "2", "0", "1", "255u8", "-1", "-128i8", "3usize", "18446744073709551615", "true", "false", "const", "struct", "enum", "fn", "let",
    "if", "else", "match", "mut", "as", "pub", "for", "in", ".", "..", "..=", ",", ";", ":", "::", "=", "==", "!=", "=>", "->", "(", ")", "{", "}", "[", "]",
    "<", ">", "<=", ">=", "<<", ">>", "+", "-", "*", "/", "%", "&", "&&", "|", "||", "^", "!", "+=", "-=", "*=", "/=", "%=", "&=", "|=", "^=", "<<=", ">>=",
    "_", "u8", "i64", "bool", "usize", "join", "/*", "//",
];

fn spans(e: &Error) -> (Vec<Value>, usize) {
    let mut v = vec![];
    let mut n = 0;
    if let Error::CompileTimeError(c) = e {
        match c {
            CompileTimeError::ScanErrors(es) => { n = es.len(); for x in es { v.push(json!([x.1.start.0, x.1.start.1, x.1.end.0, x.1.end.1])); } }
            CompileTimeError::ParseError(es) => { n = es.len(); for x in es { v.push(json!([x.1.start.0, x.1.start.1, x.1.end.0, x.1.end.1])); } }
            CompileTimeError::TypeError(es) => { n = es.len(); for x in es { v.push(json!([x.1.start.0, x.1.start.1, x.1.end.0, x.1.end.1])); } }
            CompileTimeError::CompilerError(es) => { n = es.len(); }
        }
    } else { n = 1; }
    (v, n)
}

/// one front-end run (in-process; hangs are handled by the supervisor)
fn front_end(text: &str) -> Value {
    let nlines = text.lines().count() + 1;
    let t = text.to_string();
    match guarded(move || garble_lang::compile(&t)) {
        Ok(Ok(_)) => json!({"nlines": nlines, "outcome": "ok", "phase": "compile", "errors": [], "nerrors": 0, "prettify_ok": true}),
        Ok(Err(e)) => {
            let (sp, n) = spans(&e);
            let t2 = text.to_string();
            let pretty = guarded(move || e.prettify(&t2)).is_ok();
            json!({"nlines": nlines, "outcome": "err", "phase": "front", "errors": sp, "nerrors": n, "prettify_ok": pretty})
        }
        Err(m) => {
            // a compiler panic of an accepted program: does the typed program bind a name to a value of unresolved integer
            // type (the cause of the open finding `unspecified-binding`)?
            let t3 = text.to_string();
            let unspec = match guarded(move || garble_lang::check(&t3)) {
                Ok(Ok(typed)) => guarded(|| { let cs = std::collections::HashMap::new(); let mut pr = crate::proj::Proj::new(&typed, &cs); let whole = pr.program("main"); crate::c05::unspecified_bindings(&whole["fns"]) }).unwrap_or(false),
                _ => false,
            };
            json!({"nlines": nlines, "outcome": "panic", "phase": m, "errors": [], "nerrors": 0, "prettify_ok": true, "unspec_binding": unspec})
        }
    }
}

fn literal_run(text: &str) -> Value {
    // the argument parser: a fixed program, parameter types of several shapes
    thread_local! { static PRG: garble_lang::GarbleProgram = garble_lang::compile("struct P { a: u8, b: bool }\nenum E { A, B(u8) }\npub fn main(a: u8, b: (i16, bool), c: [u8; 2], d: P, e: E) -> u8 { a }").unwrap(); }
    let nlines = text.lines().count() + 1;
    let mut out = json!({"nlines": nlines, "outcome": "ok", "phase": "literal", "errors": [], "nerrors": 0, "prettify_ok": true});
    for i in 0..5 {
        let t = text.to_string();
        let r = PRG.with(|p| guarded(|| p.parse_arg(i, &t).map(|a| a.as_bits())));
        match r {
            Err(m) => { out["outcome"] = json!("panic"); out["phase"] = json!(format!("parse_arg({i}): {m}")); return out; }
            Ok(Err(e)) => { let t2 = text.to_string(); if guarded(move || e.prettify(&t2)).is_err() { out["outcome"] = json!("err"); out["nerrors"] = json!(1); out["prettify_ok"] = json!(false); return out; } }
            Ok(Ok(_)) => {}
        }
    }
    out
}

fn concretise(s: &Value) -> String {
    s.as_array().unwrap().iter().map(|c| match c.as_str().unwrap() { "n" => "\n", "s" => " ", "x" => "+", "u" => "\u{e9}", o => o }.to_string()).collect()
}

/// token texts of a program (with the line of each token).  A plain splitter (words, numbers,
/// longest-match operators); it only has to produce reasonable cut points for the perturbations.
fn tokens_of(src: &str) -> Option<Vec<(usize, String)>> {
    const OPS: [&str; 30] = ["..=", "<<=", ">>=", "..", "::", "==", "!=", "=>", "->", "<=", ">=", "<<", ">>", "&&", "||", "+=", "-=", "*=", "/=", "%=", "&=", "|=", "^=", "//", "/*", "*/", ".", ",", ";", ":"];
    let chars: Vec<char> = src.chars().collect();
    let mut out = vec![];
    let (mut i, mut line) = (0usize, 0usize);
    while i < chars.len() {
        let c = chars[i];
        if c == '\n' { line += 1; i += 1; continue; }
        if c.is_whitespace() { i += 1; continue; }
        if c.is_alphanumeric() || c == '_' {
            let st = i;
            while i < chars.len() && (chars[i].is_alphanumeric() || chars[i] == '_') { i += 1; }
            out.push((line, chars[st..i].iter().collect()));
            continue;
        }
        let rest: String = chars[i..(i + 3).min(chars.len())].iter().collect();
        if let Some(op) = OPS.iter().find(|o| rest.starts_with(**o)) {
            if *op == "//" { while i < chars.len() && chars[i] != '\n' { i += 1; } continue; }
            out.push((line, op.to_string()));
            i += op.chars().count();
            continue;
        }
        out.push((line, c.to_string()));
        i += 1;
    }
    Some(out)
}
fn render(tokens: &[(usize, String)]) -> String {
    let mut s = String::new();
    let mut line = 0;
    for (l, t) in tokens { while line < *l { s.push('\n'); line += 1; } s.push_str(t); s.push(' '); }
    s
}
fn apply_edit(tokens: &[(usize, String)], e: &Value) -> Option<String> {
    let pos = e["pos"].as_u64().unwrap() as usize;
    let tok = e["tok"].as_u64().unwrap() as usize;
    let n = tokens.len();
    let mut t = tokens.to_vec();
    match e["k"].as_str().unwrap() {
        "prefix" => { if pos > n { return None; } t.truncate(pos); }
        "delete" => { if pos > n { return None; } t.remove(pos - 1); }
        "dup" => { if pos > n { return None; } let x = t[pos - 1].clone(); t.insert(pos - 1, x); }
        "swap" => { if pos + 1 > n { return None; } t.swap(pos - 1, pos); let l0 = t[pos - 1].0.min(t[pos].0); t[pos - 1].0 = l0; }
        "subst" => { if pos > n || tok > SUBST.len() { return None; } t[pos - 1].1 = SUBST[tok - 1].to_string(); }
        "insert" => { if pos > n || tok > SUBST.len() { return None; } let l = t[pos - 1].0; t.insert(pos - 1, (l, SUBST[tok - 1].to_string())); }
        _ => return None,
    }
    // keep line numbers monotone
    let mut last = 0;
    for x in t.iter_mut() { if x.0 < last { x.0 = last; } last = x.0; }
    Some(render(&t))
}

/// frontend-batch <texts.ndjson> <start> <out.ndjson>: worker; prints the index of each case before running it
pub fn cmd_batch(args: &[String]) {
    quiet_panics();
    let start: usize = args[1].parse().unwrap();
    let mut w = std::fs::OpenOptions::new().create(true).append(true).open(&args[2]).unwrap();
    let stdout = std::io::stdout();
    for (i, line) in read_lines(&args[0]).enumerate() {
        if i < start { continue; }
        { let mut o = stdout.lock(); writeln!(o, "BEGIN {i}").unwrap(); o.flush().unwrap(); }
        let c: Value = serde_json::from_str(&line).unwrap();
        let text = c["text"].as_str().unwrap();
        let mut ev = if c["kind"] == "lit" { literal_run(text) } else { front_end(text) };
        ev["i"] = json!(i);
        writeln!(w, "{ev}").unwrap();
    }
    let mut o = stdout.lock();
    writeln!(o, "END").unwrap();
}

/// runs case number `index` of the case file alone in a fresh worker; Some(event) if the worker completed it
fn rerun_single(cases: &str, index: usize, deadline: Duration) -> Option<Value> {
    let line = read_lines(cases).nth(index)?;
    let single = format!("{cases}.retry");
    let single_out = format!("{cases}.retry.out");
    std::fs::write(&single, format!("{line}\n")).ok()?;
    let _ = std::fs::remove_file(&single_out);
    let exe = std::env::current_exe().ok()?;
    let mut child = Command::new(exe).args(["frontend-batch", &single, "0", &single_out]).stdout(Stdio::null()).stderr(Stdio::null()).spawn().ok()?;
    let t0 = Instant::now();
    let done = loop {
        match child.try_wait() { Ok(Some(st)) => break st.success(), Ok(None) => {}, Err(_) => break false }
        if t0.elapsed() > deadline { break false; }
        std::thread::sleep(Duration::from_millis(20));
    };
    let _ = child.kill();
    let _ = child.wait();
    let res = if done { read_lines(&single_out).next().and_then(|l| serde_json::from_str::<Value>(&l).ok()) } else { None };
    let _ = std::fs::remove_file(&single);
    let _ = std::fs::remove_file(&single_out);
    res
}

/// supervises one worker over the whole case file; returns when every case has an event
fn supervise(cases: &str, out: &str, deadline: Duration) {
    let _ = std::fs::remove_file(out);
    let total = read_lines(cases).count();
    let mut start = 0usize;
    let mut stuck = 0usize;
    while start < total && stuck < 12 {
        let exe = std::env::current_exe().unwrap();
        let mut child = Command::new(exe).args(["frontend-batch", cases, &start.to_string(), out]).stdout(Stdio::piped()).stderr(Stdio::null()).spawn().expect("spawn");
        let stdout = child.stdout.take().unwrap();
        let (tx, rx) = std::sync::mpsc::channel::<String>();
        std::thread::spawn(move || { for l in BufReader::new(stdout).lines().map_while(Result::ok) { if tx.send(l).is_err() { break; } } });
        let mut current = start;
        let mut last = Instant::now();
        let mut finished = false;
        loop {
            match rx.recv_timeout(Duration::from_millis(50)) {
                Ok(l) => { last = Instant::now(); if l == "END" { finished = true; break; } if let Some(n) = l.strip_prefix("BEGIN ") { current = n.parse().unwrap(); } }
                Err(std::sync::mpsc::RecvTimeoutError::Timeout) => {
                    if last.elapsed() > deadline { break; }
                    if let Ok(Some(_)) = child.try_wait() { // died (abort / stack overflow)
                        // drain
                        while let Ok(l) = rx.try_recv() { if l == "END" { finished = true; } if let Some(n) = l.strip_prefix("BEGIN ") { current = n.parse().unwrap(); } }
                        break;
                    }
                }
                Err(_) => { break; }
            }
        }
        let exited = matches!(child.try_wait(), Ok(Some(_)));
        let _ = child.kill();
        let _ = child.wait();
        if finished { break; }
        // the case `current` did not complete: hang (deadline) or crash (process died).  The observation is confirmed by
        // running the case once more on its own (a worker can also die for reasons that have nothing to do with the input)
        let mut w = std::fs::OpenOptions::new().create(true).append(true).open(out).unwrap();
        let confirmed = rerun_single(cases, current, deadline * 2);
        let ev = match confirmed {
            Some(mut ev) => { ev["i"] = json!(current); ev["retried"] = json!(true); ev }
            None => json!({"i": current, "nlines": 1, "outcome": if exited { "crash" } else { "hang" }, "phase": "worker", "errors": [], "nerrors": 0, "prettify_ok": true}),
        };
        let failed = matches!(ev["outcome"].as_str(), Some("crash") | Some("hang"));
        writeln!(w, "{ev}").unwrap();
        if !failed { start = current + 1; continue; }
        stuck += 1;
        start = current + 1;
    }
    if start < total && stuck >= 12 {
        // too many hangs / crashes: the remaining cases are not run (reported by the check)
        let mut w = std::fs::OpenOptions::new().create(true).append(true).open(out).unwrap();
        writeln!(w, "{}", json!({"i": -1, "outcome": "stopped_early", "remaining": total - start})).unwrap();
    }
}

/// alphabet of the cut-and-continue space (Gen_TokenStrings.tla, K = 22)
pub const CUT_TOKENS: [&str; 22] = [")", "}", "]", "(", "{", "[", ",", ";", "=>", "=", "x", "1", "match", "if", "else", "let", "for", "in", "..", ":", "::", "|"];
/// programs that contain every construct of the language once; cut at every token boundary
pub const CUT_BASES: [&str; 3] = [
    "struct S { a: u8, b: bool } enum E { A, B(u8) } const C: u8 = 1u8; fn f(p: u8) -> u8 { p + C } pub fn main(x: u8, s: S, e: E, arr: [u8; 2]) -> u8 { let mut m = f(x); let (t, u) = (x, true); m = if u { m } else { 0u8 }; for i in arr { m = m ^ i; } let r = match e { E::A => { m } E::B(v) => v, }; let q = match s { S { a, .. } => a }; let w = [x; 2]; m += 1u8; ((m as u16) as u8) + r + q + w[0] + arr[1usize] + s.a + t }",
    "pub fn main(x: i16, y: (bool, [i16; 2])) -> bool { let z = S { a: 1u8, b: true }; if x <= 3i16 && !(y.0) || y.1[0] == -x { match (x, y.0) { (1i16..=5i16, true) => false, (_, b) => { let k = b; k } } } else if x > 0i16 { true } else { false } }",
    "pub fn main(a: [(u8, u16); 3], b: [(u8, bool); 2]) -> u16 { let mut acc = 0u16; for joined in join_iter(a, b) { let ((k1, v), (k2, w)) = joined; acc = acc + v; } for i in 0usize..3usize { acc = acc + a[i].1 } let j = join(a, b); acc }",
];

/// frontend-run <mode> <input> <texts out> <events out> <deadline ms> [corpus dir] [max programs]
/// mode "strings": input = ndjson of {s:[chars]} (scanner model strings); mode "edits": input = ndjson of edits;
/// mode "soup": input = number of random token sequences; mode "texts": input already has {kind,text}
pub fn cmd_run(args: &[String]) {
    quiet_panics();
    let mode = args[0].as_str();
    let texts_path = &args[2];
    let deadline = Duration::from_millis(args[4].parse().unwrap());
    {
        let mut w = writer(texts_path);
        match mode {
            "strings" => for line in read_lines(&args[1]) { let c: Value = serde_json::from_str(&line).unwrap(); let t = concretise(&c["s"]); emit(&mut w, &json!({"kind":"text","text":t})); emit(&mut w, &json!({"kind":"lit","text":t})); },
            "texts" => for line in read_lines(&args[1]) { let c: Value = serde_json::from_str(&line).unwrap(); emit(&mut w, &c); },
            "edits" => {
                let edits: Vec<Value> = read_lines(&args[1]).map(|l| serde_json::from_str(&l).unwrap()).collect();
                let maxp: usize = args[6].parse().unwrap();
                let max_tok = edits.iter().map(|e| e["pos"].as_u64().unwrap() as usize).max().unwrap_or(0);
                let mut progs: Vec<(String, String, Vec<(usize, String)>)> = crate::corpus::good_programs(&args[5]).into_iter()
                    .filter_map(|(f, s)| tokens_of(&s).map(|t| (f, s, t))).filter(|p| p.2.len() >= 8 && p.2.len() <= max_tok + 1).collect();
                progs.sort_by_key(|p| p.2.len());
                // an even spread over the sizes
                let step = (progs.len() as f64 / maxp as f64).max(1.0);
                let mut picked = vec![];
                let mut x = 0.0;
                while (x as usize) < progs.len() && picked.len() < maxp { picked.push(progs[x as usize].clone()); x += step; }
                // generated programs (assignments through accessors, loops, matches) as further bases
                let ngen = maxp / 2;
                for k in 0..ngen {
                    let mut rng = Rng::new(seed_from_env().wrapping_mul(31).wrapping_add(k as u64 + 1000));
                    let src = { let mut g = crate::pgen::Gen::new(&mut rng, crate::pgen::Profile::Mutation); g.program() };
                    if let Some(t) = tokens_of(&src) { if t.len() <= max_tok + 1 { picked.push((format!("gen-{k}"), src, t)); } }
                }
                for (f, _src, toks) in picked {
                    for e in &edits { if let Some(t) = apply_edit(&toks, e) { emit(&mut w, &json!({"kind":"text","text":t,"prog":f,"edit":e})); } }
                }
                // literal texts: perturbations of a few literals
                for lit in ["[1, 2]", "(-5, true)", "P {a: 1, b: false}", "E::B(7)", "200"] {
                    if let Some(toks) = tokens_of(lit) { for e in &edits { if let Some(t) = apply_edit(&toks, e) { emit(&mut w, &json!({"kind":"lit","text":t,"prog":lit,"edit":e})); } } }
                }
            }
            "values" => {
                // substitutions of operands (names, numbers, true / false) of generated programs by values of other types
                let edits: Vec<Value> = read_lines(&args[1]).map(|l| serde_json::from_str(&l).unwrap()).collect();
                let nprog: usize = args[6].parse().unwrap();
                let max_tok = edits.iter().map(|e| e["pos"].as_u64().unwrap() as usize).max().unwrap_or(0);
                const KEYWORDS: [&str; 22] = ["const", "struct", "enum", "fn", "let", "if", "else", "match", "mut", "as", "pub", "for", "in", "u8", "u16", "u32", "u64", "usize", "i8", "i16", "i32", "bool"];
                let mut made = 0;
                let mut k = 0u64;
                while made < nprog && k < 40 * nprog as u64 {
                    k += 1;
                    let mut rng = Rng::new(seed_from_env().wrapping_mul(131).wrapping_add(k + 5000));
                    let profile = if k % 2 == 0 { crate::pgen::Profile::Mutation } else { crate::pgen::Profile::Default };
                    let src = { let mut g = crate::pgen::Gen::new(&mut rng, profile); g.program() };
                    let Some(toks) = tokens_of(&src) else { continue };
                    if toks.len() > max_tok + 1 || toks.len() < 30 { continue; }
                    made += 1;
                    for e in &edits {
                        let pos = e["pos"].as_u64().unwrap() as usize;
                        if pos == 0 || pos > toks.len() { continue; }
                        let t = &toks[pos - 1].1;
                        let c = t.chars().next().unwrap_or(' ');
                        let operand = (c.is_ascii_alphabetic() || c == '_' || c.is_ascii_digit()) && !KEYWORDS.contains(&t.as_str()) && !t.starts_with("i64");
                        if !operand { continue; }
                        if let Some(t) = apply_edit(&toks, e) { emit(&mut w, &json!({"kind":"text","text":t,"prog":format!("gen-values-{k}"),"edit":e})); }
                    }
                }
            }
            "cuts" => {
                // every prefix of the construct-covering programs followed by every TLC-enumerated short token string
                let strings: Vec<Vec<usize>> = read_lines(&args[1]).map(|l| { let c: Value = serde_json::from_str(&l).unwrap(); c["s"].as_array().unwrap().iter().map(|x| x.as_u64().unwrap() as usize).collect() }).collect();
                for (bi, base) in CUT_BASES.iter().enumerate() {
                    let Some(toks) = tokens_of(base) else { panic!("cut base {bi} cannot be tokenised") };
                    for cut in 0..=toks.len() {
                        let prefix: String = toks[..cut].iter().map(|(_, t)| t.as_str()).collect::<Vec<_>>().join(" ");
                        for st in &strings {
                            let suffix: String = st.iter().map(|i| CUT_TOKENS[(*i - 1) % CUT_TOKENS.len()]).collect::<Vec<_>>().join(" ");
                            emit(&mut w, &json!({"kind":"text","text":format!("{prefix} {suffix}"),"prog":format!("cut-base-{bi}"),"edit":{"k":"cut","pos":cut,"s":st}}));
                        }
                    }
                }
            }
            "soup" => {
                let n: usize = args[1].parse().unwrap();
                let mut rng = Rng::new(seed_from_env() ^ 0xC07);
                for k in 0..n {
                    let len = 1 + rng.below(40);
                    let mut t = String::new();
                    if k % 3 == 0 { for _ in 0..len { let b = rng.below(256) as u8; t.push(b as char); } }
                    else { for _ in 0..len { t.push_str(SUBST[rng.below(SUBST.len())]); t.push(if rng.chance(1, 8) { '\n' } else { ' ' }); } }
                    emit(&mut w, &json!({"kind": if k % 5 == 4 { "lit" } else { "text" }, "text": t}));
                }
            }
            m => panic!("mode {m}"),
        }
    }
    supervise(texts_path, &args[3], deadline);
}

/// tokens-debug <corpus dir>: how many corpus programs can be tokenised with exact spans
pub fn cmd_tokens_debug(args: &[String]) {
    let progs = crate::corpus::good_programs(&args[0]);
    let mut ok = 0;
    for (f, s) in &progs { match tokens_of(s) { Some(t) => { ok += 1; if ok <= 2 { println!("{f}: {:?}", &t[..t.len().min(12)]); } } None => {} } }
    println!("{ok} of {}", progs.len());
}
