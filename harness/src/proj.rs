//! Projection of the crate's public typed AST to the JSON shape of spec/GarbleSyntax.tla.
//! This is the one trusted piece of the implementation -> spec direction: it contains no
//! semantics, only a change of representation (every node keeps its type and its `meta`).
use garble_lang::ast::*;
use garble_lang::token::{MetaInfo, SignedNumType, UnsignedNumType};
use garble_lang::{TypedExpr, TypedPattern, TypedProgram, TypedStmt};
use serde_json::{json, Value};
use std::collections::HashMap;

const LIM: i128 = 1 << 30;

pub struct Proj<'a> {
    pub prg: &'a TypedProgram,
    pub const_sizes: &'a HashMap<String, usize>,
    pub oom: Vec<String>,
    /// restore the surface forms `<=`, `>=` and `op=` that the parser rewrites by cloning operands
    pub resugar: bool,
}

fn meta(m: &MetaInfo) -> Value {
    json!([m.start.0, m.start.1, m.end.0, m.end.1])
}

pub fn uty(t: &UnsignedNumType) -> &'static str {
    match t {
        UnsignedNumType::Usize => "usize",
        UnsignedNumType::U8 => "u8",
        UnsignedNumType::U16 => "u16",
        UnsignedNumType::U32 => "u32",
        UnsignedNumType::U64 => "u64",
        UnsignedNumType::Unspecified => "unspec",
    }
}
pub fn sty(t: &SignedNumType) -> &'static str {
    match t {
        SignedNumType::I8 => "i8",
        SignedNumType::I16 => "i16",
        SignedNumType::I32 => "i32",
        SignedNumType::I64 => "i64",
        SignedNumType::Unspecified => "unspec",
    }
}

impl<'a> Proj<'a> {
    pub fn new(prg: &'a TypedProgram, const_sizes: &'a HashMap<String, usize>) -> Self {
        Proj { prg, const_sizes, oom: vec![], resugar: true }
    }

    fn num(&mut self, v: i128) -> Value {
        if v.abs() >= LIM {
            self.oom.push(format!("number {v} outside the model"));
            json!(0)
        } else {
            json!(v as i64)
        }
    }

    /// value of a usize const expression used as an array size (the documented meaning: sums, differences, max, min
    /// over literals and named sizes)
    fn const_usize(&self, c: &ConstExpr) -> Option<i128> {
        Some(match &c.0 {
            ConstExprEnum::NumUnsigned(n, _) => *n as i128,
            ConstExprEnum::NumSigned(n, _) => *n as i128,
            ConstExprEnum::ConstExprIdent(n) => *self.const_sizes.get(n)? as i128,
            ConstExprEnum::ExternalValue { party, identifier } => *self.const_sizes.get(&format!("{party}::{identifier}"))? as i128,
            ConstExprEnum::Max(xs) => { let mut m: Option<i128> = None; for x in xs { let v = self.const_usize(x)?; m = Some(m.map_or(v, |a| a.max(v))); } m? }
            ConstExprEnum::Min(xs) => { let mut m: Option<i128> = None; for x in xs { let v = self.const_usize(x)?; m = Some(m.map_or(v, |a| a.min(v))); } m? }
            ConstExprEnum::Add(a, b) => self.const_usize(a)? + self.const_usize(b)?,
            ConstExprEnum::Sub(a, b) => self.const_usize(a)? - self.const_usize(b)?,
            _ => return None,
        })
    }

    pub fn ty(&mut self, t: &Type) -> Value {
        match t {
            Type::Bool => json!({"k":"bool"}),
            Type::Unsigned(u) => {
                if let UnsignedNumType::Unspecified = u { self.oom.push("unspecified int type".into()); }
                json!({"k":"int","t":uty(u)})
            }
            Type::Signed(s) => {
                if let SignedNumType::Unspecified = s { self.oom.push("unspecified int type".into()); }
                json!({"k":"int","t":sty(s)})
            }
            Type::Array(e, n) => json!({"k":"arr","e":self.ty(e),"n":n}),
            Type::ArrayConst(e, c) => match self.const_sizes.get(c) {
                Some(n) => json!({"k":"arr","e":self.ty(e),"n":n}),
                None => { self.oom.push(format!("unresolved const size {c}")); json!({"k":"arr","e":self.ty(e),"n":0}) }
            },
            Type::ArrayConstExpr(e, c) => match self.const_usize(c) {
                Some(n) if n >= 0 => json!({"k":"arr","e":self.ty(e),"n":n as i64}),
                _ => { self.oom.push("const-expr array size".into()); json!({"k":"arr","e":self.ty(e),"n":0}) }
            },
            Type::Tuple(fs) => { let v: Vec<Value> = fs.iter().map(|f| self.ty(f)).collect(); json!({"k":"tup","fs":v}) }
            Type::Struct(n) => json!({"k":"struct","name":n}),
            Type::Enum(n) => json!({"k":"enum","name":n}),
            Type::Fn(_, _) => { self.oom.push("fn type".into()); json!({"k":"bool"}) }
            Type::UntypedTopLevelDefinition(n, _) => { self.oom.push(format!("untyped {n}")); json!({"k":"bool"}) }
        }
    }

    fn op(o: &Op) -> &'static str {
        match o {
            Op::Add => "add", Op::Sub => "sub", Op::Mul => "mul", Op::Div => "div", Op::Mod => "mod",
            Op::BitAnd => "and", Op::BitXor => "xor", Op::BitOr => "or", Op::GreaterThan => "gt", Op::LessThan => "lt",
            Op::Eq => "eq", Op::NotEq => "ne", Op::ShiftLeft => "shl", Op::ShiftRight => "shr",
            Op::ShortCircuitAnd => "land", Op::ShortCircuitOr => "lor",
        }
    }

    pub fn expr(&mut self, e: &TypedExpr) -> Value {
        let ty = self.ty(&e.ty);
        let m = meta(&e.meta);
        let mut v = match &e.inner {
            ExprEnum::True => json!({"k":"true"}),
            ExprEnum::False => json!({"k":"false"}),
            ExprEnum::NumUnsigned(n, _) => json!({"k":"num","v":self.num(*n as i128)}),
            ExprEnum::NumSigned(n, _) => json!({"k":"num","v":self.num(*n as i128)}),
            ExprEnum::Identifier(s) => json!({"k":"var","n":s}),
            ExprEnum::ArrayLiteral(es) => { let v: Vec<Value> = es.iter().map(|x| self.expr(x)).collect(); json!({"k":"arrlit","es":v}) }
            ExprEnum::ArrayRepeatLiteral(x, n) => json!({"k":"arrrep","e":self.expr(x),"n":n}),
            ExprEnum::ArrayRepeatLiteralConst(x, c) => {
                let n = self.const_sizes.get(c).copied();
                if n.is_none() { self.oom.push(format!("unresolved const size {c}")); }
                json!({"k":"arrrep","e":self.expr(x),"n":n.unwrap_or(0)})
            }
            ExprEnum::ArrayAccess(a, i) => json!({"k":"idx","a":self.expr(a),"i":self.expr(i)}),
            ExprEnum::TupleLiteral(es) => { let v: Vec<Value> = es.iter().map(|x| self.expr(x)).collect(); json!({"k":"tuplit","es":v}) }
            ExprEnum::TupleAccess(t, i) => json!({"k":"tupacc","e":self.expr(t),"i":i}),
            ExprEnum::StructAccess(s, f) => json!({"k":"sacc","e":self.expr(s),"f":f}),
            ExprEnum::StructLiteral(name, fs) => {
                let v: Vec<Value> = fs.iter().map(|(n, x)| json!({"n":n,"e":self.expr(x)})).collect();
                json!({"k":"slit","name":name,"fs":v})
            }
            ExprEnum::EnumLiteral(name, variant, ve) => {
                let es: Vec<Value> = match ve { VariantExprEnum::Unit => vec![], VariantExprEnum::Tuple(es) => es.iter().map(|x| self.expr(x)).collect() };
                json!({"k":"elit","name":name,"v":variant,"es":es})
            }
            ExprEnum::Match(x, arms) => {
                let a: Vec<Value> = arms.iter().map(|(p, b)| json!({"p":self.pat(p),"b":self.expr(b)})).collect();
                json!({"k":"match","e":self.expr(x),"arms":a})
            }
            ExprEnum::UnaryOp(o, x) => {
                let xj = self.expr(x);
                // `a <= b` is written by the parser as `!(a > b)` (and `a >= b` as `!(a < b)`) with the span of the comparison
                let cmp = xj["op"].as_str().unwrap_or("").to_string();
                if matches!(o, UnaryOp::Not) && self.resugar && xj["k"] == "bin" && (cmp == "gt" || cmp == "lt") && xj["m"] == m {
                    json!({"k":"bin","op": if cmp == "gt" { "le" } else { "ge" },"l":xj["l"],"r":xj["r"]})
                } else {
                    json!({"k":"un","op":match o { UnaryOp::Not => "not", UnaryOp::Neg => "neg" },"e":xj})
                }
            }
            ExprEnum::Op(o, l, r) => {
                let (lj, rj) = (self.expr(l), self.expr(r));
                // the parser writes `a <= b` as `(a < b) | (a == b)` with cloned operands that all carry the span of the
                // comparison: the surface form is restored, its operands are evaluated once
                let cmp = lj["op"].as_str().unwrap_or("").to_string();
                if matches!(o, Op::BitOr) && self.resugar && lj["k"] == "bin" && rj["k"] == "bin" && (cmp == "lt" || cmp == "gt") && rj["op"] == "eq"
                    && lj["m"] == m && rj["m"] == m && lj["l"] == rj["l"] && lj["r"] == rj["r"] {
                    json!({"k":"bin","op": if cmp == "lt" { "le" } else { "ge" },"l":lj["l"],"r":lj["r"]})
                } else {
                    json!({"k":"bin","op":Self::op(o),"l":lj,"r":rj})
                }
            }
            ExprEnum::Block(ss) => { let v: Vec<Value> = ss.iter().map(|s| self.stmt(s)).collect(); json!({"k":"block","ss":v}) }
            ExprEnum::FnCall(f, args) => { let v: Vec<Value> = args.iter().map(|x| self.expr(x)).collect(); json!({"k":"call","f":f,"args":v}) }
            ExprEnum::BuiltInFnCall(BuiltInFnCall::Join { join_ty, has_assoc_data, args }) => {
                let v: Vec<Value> = args.iter().map(|x| self.expr(x)).collect();
                json!({"k":"join","jty":self.ty(join_ty),"assoc":has_assoc_data,"args":v})
            }
            ExprEnum::If(c, t, f) => json!({"k":"if","c":self.expr(c),"t":self.expr(t),"f":self.expr(f)}),
            ExprEnum::Cast(t, x) => json!({"k":"cast","to":self.ty(t),"e":self.expr(x)}),
            ExprEnum::Range(lo, hi, t) => json!({"k":"range","lo":self.num(*lo as i128),"hi":self.num(*hi as i128),"t":uty(t)}),
        };
        v["ty"] = ty;
        v["m"] = m;
        v
    }

    pub fn pat(&mut self, p: &TypedPattern) -> Value {
        let Pattern(pe, m, t) = p;
        let ty = self.ty(t);
        let mut v = match pe {
            PatternEnum::Identifier(n) => json!({"k":"pid","n":n}),
            PatternEnum::True => json!({"k":"ptrue"}),
            PatternEnum::False => json!({"k":"pfalse"}),
            PatternEnum::NumUnsigned(n, _) => json!({"k":"pnum","v":self.num(*n as i128)}),
            PatternEnum::NumSigned(n, _) => json!({"k":"pnum","v":self.num(*n as i128)}),
            PatternEnum::Tuple(ps) => { let v: Vec<Value> = ps.iter().map(|x| self.pat(x)).collect(); json!({"k":"ptup","ps":v}) }
            PatternEnum::Struct(name, fs) | PatternEnum::StructIgnoreRemaining(name, fs) => {
                let v: Vec<Value> = fs.iter().map(|(n, x)| json!({"n":n,"p":self.pat(x)})).collect();
                json!({"k":"pstruct","name":name,"fs":v,"rest":matches!(pe, PatternEnum::StructIgnoreRemaining(_, _))})
            }
            PatternEnum::EnumUnit(name, variant) => json!({"k":"penum","name":name,"v":variant,"ps":[]}),
            PatternEnum::EnumTuple(name, variant, ps) => { let v: Vec<Value> = ps.iter().map(|x| self.pat(x)).collect(); json!({"k":"penum","name":name,"v":variant,"ps":v}) }
            PatternEnum::UnsignedInclusiveRange(lo, hi, _) => json!({"k":"prange","lo":self.num(*lo as i128),"hi":self.num(*hi as i128)}),
            PatternEnum::SignedInclusiveRange(lo, hi, _) => json!({"k":"prange","lo":self.num(*lo as i128),"hi":self.num(*hi as i128)}),
        };
        // number patterns carry the type that was written (literal suffix) if there is one
        let written = match pe {
            PatternEnum::NumUnsigned(_, sfx) | PatternEnum::UnsignedInclusiveRange(_, _, sfx) if *sfx != UnsignedNumType::Unspecified => Some(Type::Unsigned(*sfx)),
            PatternEnum::NumSigned(_, sfx) | PatternEnum::SignedInclusiveRange(_, _, sfx) if *sfx != SignedNumType::Unspecified => Some(Type::Signed(*sfx)),
            _ => None,
        };
        v["ty"] = match written { Some(t) => self.ty(&t), None => ty };
        v["m"] = meta(m);
        v
    }

    pub fn stmt(&mut self, s: &TypedStmt) -> Value {
        let m = meta(&s.meta);
        let mut v = match &s.inner {
            StmtEnum::Let(p, _, e) => json!({"k":"let","p":self.pat(p),"e":self.expr(e)}),
            StmtEnum::LetMut(n, _, e) => json!({"k":"letmut","n":n,"e":self.expr(e)}),
            StmtEnum::VarAssign(n, accs, e) => {
                let a: Vec<Value> = accs.iter().map(|(a, am)| match a {
                    Accessor::ArrayAccess { array_ty, index } => json!({"k":"idx","i":self.expr(index),"cty":self.ty(array_ty),"m":meta(am)}),
                    Accessor::TupleAccess { tuple_ty, index } => json!({"k":"tup","i":index,"cty":self.ty(tuple_ty),"m":meta(am)}),
                    Accessor::StructAccess { struct_ty, field } => json!({"k":"fld","f":field,"cty":self.ty(struct_ty),"m":meta(am)}),
                }).collect();
                let ej = self.expr(e);
                // `place op= v` is written by the parser as `place = place op v`; the operator node and the cloned place
                // carry the span of the whole statement (a hand-written `x = x + v` has the span of its right-hand side)
                let is_place = |x: &Value| -> bool {
                    let mut cur = x;
                    let mut depth = 0;
                    loop {
                        match cur["k"].as_str().unwrap_or("") {
                            "var" => return cur["n"] == json!(n) && depth == a.len() && cur["m"][0] == m[0] && cur["m"][1] == m[1],
                            "idx" => { cur = &cur["a"]; depth += 1; }
                            "tupacc" | "sacc" => { cur = &cur["e"]; depth += 1; }
                            _ => return false,
                        }
                    }
                };
                if self.resugar && ej["k"] == "bin" && ej["m"] == m && !matches!(ej["op"].as_str().unwrap_or(""), "le" | "ge" | "lt" | "gt" | "eq" | "ne" | "land" | "lor") && is_place(&ej["l"]) {
                    json!({"k":"opassign","n":n,"acc":a,"op":ej["op"],"e":ej["r"],"pty":ej["l"]["ty"]})
                } else {
                    json!({"k":"assign","n":n,"acc":a,"e":ej})
                }
            }
            StmtEnum::ForEachLoop(p, e, body) => { let b: Vec<Value> = body.iter().map(|x| self.stmt(x)).collect(); json!({"k":"for","p":self.pat(p),"e":self.expr(e),"body":b}) }
            StmtEnum::JoinLoop(p, jty, (a, b), body) => {
                let bd: Vec<Value> = body.iter().map(|x| self.stmt(x)).collect();
                json!({"k":"forjoin","p":self.pat(p),"jty":self.ty(jty),"a":self.expr(a),"b":self.expr(b),"body":bd})
            }
            StmtEnum::Expr(e) => {
                let ej = self.expr(e);
                // `a[i] op= v` with a compound index is written by the parser as `{ let $index0 = i; a[$index0] = a[$index0] op v }`
                let hidden = |x: &Value| x["k"] == "let" && x["p"]["k"] == "pid" && x["p"]["n"].as_str().map(|n| n.starts_with("$index")).unwrap_or(false);
                let ss = ej["ss"].as_array().cloned().unwrap_or_default();
                if self.resugar && ej["k"] == "block" && ss.len() >= 2 && ss[..ss.len() - 1].iter().all(|x| hidden(x)) && ss[ss.len() - 1]["k"] == "opassign" {
                    let mut op = ss[ss.len() - 1].clone();
                    let mut acc = op["acc"].as_array().cloned().unwrap_or_default();
                    for a in acc.iter_mut() {
                        if a["k"] == "idx" && a["i"]["k"] == "var" {
                            if let Some(l) = ss[..ss.len() - 1].iter().find(|l| l["p"]["n"] == a["i"]["n"]) { a["i"] = l["e"].clone(); }
                        }
                    }
                    op["acc"] = Value::Array(acc);
                    op
                } else {
                    json!({"k":"expr","e":ej})
                }
            }
        };
        v["m"] = m;
        v
    }

    /// the whole program, restricted to what `fn_name` can reach is not attempted: everything is projected
    pub fn program(&mut self, fn_name: &str) -> Value {
        let mut structs = serde_json::Map::new();
        structs.insert("_".into(), json!([]));
        for (n, d) in self.prg.struct_defs.iter() {
            let fs: Vec<Value> = d.fields.iter().map(|(f, t)| json!({"n":f,"t":self.ty(t)})).collect();
            structs.insert(n.clone(), Value::Array(fs));
        }
        let mut enums = serde_json::Map::new();
        enums.insert("_".into(), json!([]));
        for (n, d) in self.prg.enum_defs.iter() {
            let vs: Vec<Value> = d.variants.iter().map(|v| match v {
                Variant::Unit(name) => json!({"n":name,"fs":[]}),
                Variant::Tuple(name, ts) => { let fs: Vec<Value> = ts.iter().map(|t| self.ty(t)).collect(); json!({"n":name,"fs":fs}) }
            }).collect();
            enums.insert(n.clone(), Value::Array(vs));
        }
        let mut fns = serde_json::Map::new();
        for (n, d) in self.prg.fn_defs.iter() {
            let ps: Vec<Value> = d.params.iter().map(|p| json!({"n":p.name,"t":self.ty(&p.ty),"mut":matches!(p.mutability, Mutability::Mutable)})).collect();
            let body: Vec<Value> = d.body.iter().map(|s| self.stmt(s)).collect();
            fns.insert(n.clone(), json!({"params":ps,"ret":self.ty(&d.ty),"body":body,"pub":d.is_pub}));
        }
        // top-level constants: only literal-valued ones are inside the model (see ConstEval for the rest)
        let mut consts = serde_json::Map::new();
        consts.insert("_".into(), json!({"ty":{"k":"bool"},"v":0}));
        for (n, d) in self.prg.const_defs.iter() {
            let v = match &d.value.0 {
                ConstExprEnum::True => Some(json!(1)),
                ConstExprEnum::False => Some(json!(0)),
                ConstExprEnum::NumUnsigned(x, _) => Some(self.num(*x as i128)),
                ConstExprEnum::NumSigned(x, _) => Some(self.num(*x as i128)),
                _ => None,
            };
            match v {
                Some(v) => { consts.insert(n.clone(), json!({"ty":self.ty(&d.ty),"v":v})); }
                None => self.oom.push(format!("const {n} is not a literal")),
            }
        }
        json!({"structs":structs,"enums":enums,"fns":fns,"consts":consts,"main":fn_name})
    }
}
