//! C16: real validate() and eval() on arbitrary circuit values.
use crate::circ::*;
use crate::util::*;
use garble_lang::circuit_type::CircuitType;
use serde_json::{json, Value};

fn zero_inputs(sizes: &[usize]) -> Vec<Vec<bool>> {
    sizes.iter().map(|n| vec![false; *n]).collect()
}
fn one_inputs(sizes: &[usize]) -> Vec<Vec<bool>> {
    sizes.iter().map(|n| vec![true; *n]).collect()
}

/// returns {"validate": "ok"|"err"|"panic", "eval": "ok"|"panic"|"skipped", "outlen": n, "nout": n}
pub fn observe(kind: &str, c: &Value) -> Value {
    if kind == "ssa" {
        let circ = ssa_from_json(c);
        let val = match guarded(|| circ.validate()) { Ok(Ok(())) => "ok", Ok(Err(_)) => "err", Err(_) => "panic" };
        let mut eval = "skipped";
        let mut outlen = 0;
        if val == "ok" {
            eval = "ok";
            for inp in [zero_inputs(&circ.input_gates), one_inputs(&circ.input_gates)] {
                match guarded(|| circ.eval(&inp)) { Ok(o) => outlen = o.len(), Err(_) => eval = "panic" }
                let ct = CircuitType::Ssa(circ.clone());
                if guarded(|| ct.eval(&inp)).is_err() { eval = "panic"; }
            }
        }
        json!({"validate": val, "eval": eval, "outlen": outlen, "nout": circ.output_gates.len()})
    } else {
        let circ = reg_from_json(c);
        let val = match guarded(|| circ.validate()) { Ok(Ok(())) => "ok", Ok(Err(_)) => "err", Err(_) => "panic" };
        let mut eval = "skipped";
        let mut outlen = 0;
        if val == "ok" {
            eval = "ok";
            for inp in [zero_inputs(&circ.input_regs), one_inputs(&circ.input_regs)] {
                match guarded(|| circ.eval(&inp)) { Ok(o) => outlen = o.len(), Err(_) => eval = "panic" }
                let ct = CircuitType::Register(circ.clone());
                if guarded(|| ct.eval(&inp)).is_err() { eval = "panic"; }
            }
        }
        json!({"validate": val, "eval": eval, "outlen": outlen, "nout": circ.output_regs.len()})
    }
}

/// c16-replay <cases.ndjson> <results.ndjson>: only non-conforming results and a summary are written
pub fn cmd_replay(args: &[String]) {
    quiet_panics();
    let mut w = writer(&args[1]);
    let (mut n, mut nvalid, mut drift, mut model_only) = (0u64, 0u64, 0u64, 0u64);
    let mut samples = vec![];
    for line in read_lines(&args[0]) {
        let v: Value = serde_json::from_str(&line).unwrap();
        let kind = v["kind"].as_str().unwrap();
        let obs = observe(kind, &v["c"]);
        n += 1;
        let safe = v["safe"].as_bool().unwrap();
        let valid = obs["validate"] == "ok";
        if valid { nvalid += 1; if samples.len() < 3 { samples.push(json!({"case": v, "observed": obs})); } }
        let bad = obs["validate"] == "panic" || (valid && (!safe || obs["eval"] != "ok" || obs["outlen"] != obs["nout"]));
        if bad {
            emit(&mut w, &json!({"bad": true, "case": v, "observed": obs}));
        }
        let model = v["model"].as_str().unwrap();
        if model != obs["validate"].as_str().unwrap() { drift += 1; }
        if model == "ok" && !safe { model_only += 1; }
    }
    emit(&mut w, &json!({"summary": true, "n": n, "valid": nvalid, "drift": drift, "model_ok_but_unsafe": model_only, "samples": samples}));
}

/// c16-products <corpus dir> <out.ndjson> <max>: validate() on compiler and converter products
pub fn cmd_products(args: &[String]) {
    quiet_panics();
    let mut w = writer(&args[1]);
    let maxn: usize = args[2].parse().unwrap();
    let mut n = 0;
    for (f, src) in crate::corpus::good_programs(&args[0]) {
        if n >= maxn { break; }
        for dedup in [true, false] {
            let opts = garble_lang::CompileOptions { optimize_duplicate_gates: dedup, ..Default::default() };
            let Ok(Ok(p)) = guarded(|| garble_lang::compile_with_options(&src, opts)) else { continue };
            let ssa = p.circuit.unwrap_ssa_ref().clone();
            let v_ssa = match guarded(|| ssa.validate()) { Ok(Ok(())) => "ok", Ok(Err(_)) => "err", Err(_) => "panic" };
            let reg = guarded(|| garble_lang::register_circuit::Circuit::from(&ssa));
            let v_reg = match &reg { Ok(r) => match guarded(|| r.validate()) { Ok(Ok(())) => "ok", Ok(Err(_)) => "err", Err(_) => "panic" }, Err(_) => "convert-panic" };
            emit(&mut w, &json!({"file": f, "dedup": dedup, "gates": ssa.gates.len(), "ssa": v_ssa, "reg": v_reg}));
        }
        n += 1;
    }
}
