//! JSON <-> circuit values (no semantics in here).
use garble_lang::circuit::{Circuit, Gate};
use garble_lang::register_circuit as rc;
use serde_json::{json, Value};

pub fn ssa_from_json(v: &Value) -> Circuit {
    let input_gates = v["inputs"].as_array().unwrap().iter().map(|x| x.as_u64().unwrap() as usize).collect();
    let gates = v["gates"]
        .as_array()
        .unwrap()
        .iter()
        .map(|g| {
            let a = g["a"].as_u64().unwrap() as usize;
            let b = g["b"].as_u64().unwrap() as usize;
            match g["op"].as_str().unwrap() {
                "xor" => Gate::Xor(a, b),
                "and" => Gate::And(a, b),
                "not" => Gate::Not(a),
                o => panic!("bad op {o}"),
            }
        })
        .collect();
    let output_gates = v["outputs"].as_array().unwrap().iter().map(|x| x.as_u64().unwrap() as usize).collect();
    Circuit { input_gates, gates, output_gates }
}

pub fn ssa_to_json(c: &Circuit) -> Value {
    let gates: Vec<Value> = c
        .gates
        .iter()
        .map(|g| match g {
            Gate::Xor(a, b) => json!({"op":"xor","a":a,"b":b}),
            Gate::And(a, b) => json!({"op":"and","a":a,"b":b}),
            Gate::Not(a) => json!({"op":"not","a":a,"b":a}),
        })
        .collect();
    json!({"inputs": c.input_gates, "gates": gates, "outputs": c.output_gates})
}

pub fn reg_to_json(c: &rc::Circuit) -> Value {
    let insts: Vec<Value> = c
        .insts
        .iter()
        .map(|i| {
            let out = i.out.0;
            match i.op {
                rc::Op::Xor(rc::Xor(a, b)) => json!({"out":out,"op":"xor","a":a.0,"b":b.0}),
                rc::Op::And(rc::And(a, b)) => json!({"out":out,"op":"and","a":a.0,"b":b.0}),
                rc::Op::Not(rc::Not(a)) => json!({"out":out,"op":"not","a":a.0,"b":a.0}),
                rc::Op::Input(rc::Input { party, input }) => json!({"out":out,"op":"input","a":party,"b":input}),
            }
        })
        .collect();
    json!({
        "input_regs": c.input_regs,
        "insts": insts,
        "max_reg_count": c.max_reg_count,
        "output_regs": c.output_regs.iter().map(|r| r.0).collect::<Vec<_>>(),
        "and_ops": c.and_ops,
    })
}

fn u(v: &Value) -> u32 {
    // tolerate out-of-range values in hand-built (possibly ill-formed) circuit values
    v.as_u64().unwrap() as u32
}

pub fn reg_from_json(v: &Value) -> rc::Circuit {
    let insts = v["insts"]
        .as_array()
        .unwrap()
        .iter()
        .map(|i| {
            let out = rc::Reg(u(&i["out"]));
            let a = u(&i["a"]);
            let b = u(&i["b"]);
            let op = match i["op"].as_str().unwrap() {
                "xor" => rc::Op::Xor(rc::Xor(rc::Reg(a), rc::Reg(b))),
                "and" => rc::Op::And(rc::And(rc::Reg(a), rc::Reg(b))),
                "not" => rc::Op::Not(rc::Not(rc::Reg(a))),
                "input" => rc::Op::Input(rc::Input { party: a, input: b }),
                o => panic!("bad op {o}"),
            };
            rc::Inst { out, op }
        })
        .collect();
    rc::Circuit {
        input_regs: v["input_regs"].as_array().unwrap().iter().map(|x| x.as_u64().unwrap() as usize).collect(),
        insts,
        max_reg_count: v["max_reg_count"].as_u64().unwrap() as usize,
        output_regs: v["output_regs"].as_array().unwrap().iter().map(|x| rc::Reg(u(x))).collect(),
        and_ops: v["and_ops"].as_u64().unwrap() as usize,
    }
}

pub fn bits_to_json(b: &[bool]) -> Value {
    Value::Array(b.iter().map(|x| json!(*x as u8)).collect())
}

pub fn bits_from_json(v: &Value) -> Vec<bool> {
    v.as_array().unwrap().iter().map(|x| x.as_u64().unwrap() == 1).collect()
}
