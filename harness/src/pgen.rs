//! Native random generator of well-typed, fully annotated Garble programs (source text only:
//! the text goes through the real front end and the typed AST is projected for the oracle).
use crate::util::Rng;

#[derive(Clone, PartialEq, Debug)]
pub enum Ty {
    Bool,
    Int(&'static str),
    Arr(Box<Ty>, usize),
    Tup(Vec<Ty>),
    Struct(usize),
    Enum(usize),
}

#[derive(Clone, Copy, PartialEq, Debug)]
pub enum Profile {
    Default,
    PanicDense,
    Mutation,
}

#[derive(Clone)]
struct Var {
    name: String,
    ty: Ty,
    mutable: bool,
}

struct FnSig {
    name: String,
    params: Vec<(String, Ty, bool)>,
    ret: Ty,
}

pub struct Gen<'a> {
    rng: &'a mut Rng,
    profile: Profile,
    structs: Vec<(String, Vec<(String, Ty)>)>,
    enums: Vec<(String, Vec<(String, Vec<Ty>)>)>,
    fns: Vec<FnSig>,
    scopes: Vec<Vec<Var>>,
    counter: usize,
    in_fn: usize, // index of the fn being generated (callable: fns with smaller index)
    used_fns: Vec<bool>,
    pub effects_in_exprs: bool,
    consts: Vec<(String, Ty)>,
}

const NARROW: [&str; 4] = ["u8", "i8", "u16", "i16"];
const WIDE: [&str; 5] = ["u32", "i32", "u64", "i64", "usize"];

fn signed(t: &str) -> bool { t.starts_with('i') }
fn bits(t: &str) -> u32 { match t { "u8" | "i8" => 8, "u16" | "i16" => 16, "u32" | "i32" | "usize" => 32, _ => 64 } }
fn is_narrow(t: &str) -> bool { NARROW.contains(&t) }

impl<'a> Gen<'a> {
    pub fn new(rng: &'a mut Rng, profile: Profile) -> Self {
        Gen { rng, profile, structs: vec![], enums: vec![], fns: vec![], scopes: vec![], counter: 0, in_fn: 0, used_fns: vec![], effects_in_exprs: false, consts: vec![] }
    }

    fn ty_str(&self, t: &Ty) -> String {
        match t {
            Ty::Bool => "bool".into(),
            Ty::Int(s) => s.to_string(),
            Ty::Arr(e, n) => format!("[{}; {}]", self.ty_str(e), n),
            Ty::Tup(fs) => format!("({})", fs.iter().map(|f| self.ty_str(f)).collect::<Vec<_>>().join(", ")),
            Ty::Struct(i) => self.structs[*i].0.clone(),
            Ty::Enum(i) => self.enums[*i].0.clone(),
        }
    }

    fn int_ty(&mut self) -> Ty {
        if self.rng.chance(4, 5) { Ty::Int(*self.rng.pick(&NARROW)) } else { Ty::Int(*self.rng.pick(&WIDE)) }
    }
    fn scalar_ty(&mut self) -> Ty { if self.rng.chance(1, 5) { Ty::Bool } else { self.int_ty() } }
    fn any_ty(&mut self, depth: usize) -> Ty {
        let k = self.rng.below(if depth == 0 { 3 } else { 10 });
        match k {
            0..=4 => self.scalar_ty(),
            5 | 6 => { let e = self.any_ty(depth - 1); Ty::Arr(Box::new(e), 1 + self.rng.below(3)) }
            7 => { let n = 2 + self.rng.below(2); Ty::Tup((0..n).map(|_| self.any_ty(depth - 1)).collect()) }
            8 if !self.structs.is_empty() => Ty::Struct(self.rng.below(self.structs.len())),
            9 if !self.enums.is_empty() => Ty::Enum(self.rng.below(self.enums.len())),
            _ => self.scalar_ty(),
        }
    }

    fn fresh(&mut self, prefix: &str) -> String {
        // a small pool of names so that shadowing happens
        if self.rng.chance(1, 3) {
            let pool = ["a", "b", "c", "d", "acc", "t"];
            return self.rng.pick(&pool).to_string();
        }
        if !self.consts.is_empty() && self.rng.chance(1, 8) {
            let i = self.rng.below(self.consts.len());
            return self.consts[i].0.clone();
        }
        self.counter += 1;
        format!("{prefix}{}", self.counter)
    }

    // ------------------------------------------------------------------ environment
    fn visible(&self) -> Vec<Var> {
        let mut out: Vec<Var> = vec![];
        for sc in self.scopes.iter().rev() {
            for v in sc.iter().rev() {
                if !out.iter().any(|o| o.name == v.name) { out.push(v.clone()); }
            }
        }
        for (n, t) in self.consts.iter() {
            if !out.iter().any(|o| &o.name == n) { out.push(Var { name: n.clone(), ty: t.clone(), mutable: false }); }
        }
        out
    }
    fn vars_of(&self, ty: &Ty) -> Vec<Var> { self.visible().into_iter().filter(|v| &v.ty == ty).collect() }
    fn declare(&mut self, name: &str, ty: Ty, mutable: bool) {
        let sc = self.scopes.last_mut().unwrap();
        sc.retain(|v| v.name != name);
        sc.push(Var { name: name.into(), ty, mutable });
    }

    // ------------------------------------------------------------------ literals
    fn int_lit(&mut self, t: &'static str) -> String {
        let n = bits(t);
        let v: i128 = if is_narrow(t) {
            let (min, max) = if signed(t) { (-(1i128 << (n - 1)), (1i128 << (n - 1)) - 1) } else { (0, (1i128 << n) - 1) };
            match self.rng.below(10) { 0 => min, 1 => max, 2 => 0, 3 => 1, 4 => 2, 5 => max / 2, 6 | 7 => { let c = 3 + self.rng.below(5) as i128; if signed(t) && self.rng.chance(1, 3) { -c } else { c } }, _ => min + (self.rng.next() as i128).rem_euclid(max - min + 1) }
        } else {
            let m = self.rng.below(40) as i128;
            if signed(t) && self.rng.chance(1, 3) { -m } else { m }
        };
        format!("{v}{t}")
    }
    fn lit(&mut self, ty: &Ty, depth: usize) -> String {
        match ty {
            Ty::Bool => if self.rng.bool() { "true".into() } else { "false".into() },
            Ty::Int(t) => self.int_lit(t),
            Ty::Arr(e, n) => {
                if self.rng.chance(1, 3) { format!("[{}; {}]", self.expr(e, depth), n) }
                else { format!("[{}]", (0..*n).map(|_| self.maybe_effect_block(e, depth)).collect::<Vec<_>>().join(", ")) }
            }
            Ty::Tup(fs) => format!("({})", fs.clone().iter().map(|f| self.maybe_effect_block(f, depth)).collect::<Vec<_>>().join(", ")),
            Ty::Struct(i) => {
                let (name, fields) = self.structs[*i].clone();
                let mut fs: Vec<String> = fields.iter().map(|(n, t)| format!("{n}: {}", self.expr(t, depth))).collect();
                if self.rng.bool() { fs.reverse(); }
                format!("{name} {{ {} }}", fs.join(", "))
            }
            Ty::Enum(i) => {
                let (name, variants) = self.enums[*i].clone();
                let (vn, fts) = self.rng.pick(&variants).clone();
                if fts.is_empty() { format!("{name}::{vn}") } else { format!("{name}::{vn}({})", fts.iter().map(|t| self.expr(t, depth)).collect::<Vec<_>>().join(", ")) }
            }
        }
    }

    // ------------------------------------------------------------------ expressions
    /// expression of the given type; never contains a bare struct literal at top level of an
    /// `if`/`match`/`for` head (callers wrap heads with `head_expr`)
    pub fn expr(&mut self, ty: &Ty, depth: usize) -> String {
        let vars = self.vars_of(ty);
        if depth == 0 || self.rng.chance(1, 5) {
            if !vars.is_empty() && self.rng.chance(3, 4) { return self.rng.pick(&vars).name.clone(); }
            return self.lit(ty, 0);
        }
        let d = depth - 1;
        if !vars.is_empty() && self.rng.chance(1, 4) { return self.rng.pick(&vars).name.clone(); }
        match ty {
            Ty::Bool => match self.rng.below(9) {
                0 | 1 => {
                    let t = self.int_ty();
                    let op = *self.rng.pick(&["<", ">", "<=", ">=", "==", "!="]);
                    // in effects mode an operand may be a parenthesised block with an effect (evaluated exactly once)
                    let l = self.operand_maybe_effect(&t, d);
                    let r = self.operand_maybe_effect(&t, d);
                    format!("({l} {op} {r})")
                }
                2 => format!("(!{})", self.expr(ty, d)),
                3 => { let op = *self.rng.pick(&["&&", "||"]); format!("({} {op} {})", self.expr(ty, d), self.expr(ty, d)) }
                4 => { let op = *self.rng.pick(&["&", "|", "^", "==", "!="]); format!("({} {op} {})", self.expr(ty, d), self.expr(ty, d)) }
                5 => { let t = self.any_ty(1); format!("({} == {})", self.expr(&t, d.min(1)), self.expr(&t, d.min(1))) }
                _ => self.compound_source(ty, d),
            },
            Ty::Int(t) => {
                let t = *t;
                let arith = if self.profile == Profile::PanicDense { 6 } else { 4 };
                let k = self.rng.below(arith + 7);
                if k < arith {
                    let op = *self.rng.pick(&["+", "-", "*", "/", "%", "+", "-", "*"]);
                    return format!("({} {op} {})", self.expr(ty, d), self.expr(ty, d));
                }
                match k - arith {
                    0 => { let op = *self.rng.pick(&["&", "|", "^"]); format!("({} {op} {})", self.expr(ty, d), self.expr(ty, d)) }
                    1 => { let op = *self.rng.pick(&["<<", ">>"]); let amt = if self.rng.chance(2, 3) { format!("{}u8", self.rng.below(bits(t) as usize + 2)) } else { self.expr(&Ty::Int("u8"), d) }; format!("({} {op} {amt})", self.expr(ty, d)) }
                    2 => if signed(t) { format!("(-{})", self.expr(ty, d)) } else { format!("(!{})", self.expr(ty, d)) },
                    3 => { let from = if self.rng.chance(1, 6) { Ty::Bool } else { self.int_ty() }; format!("({} as {t})", self.expr(&from, d)) }
                    _ => self.compound_source(ty, d),
                }
            }
            _ => {
                if !vars.is_empty() && self.rng.chance(1, 3) { return self.rng.pick(&vars).name.clone(); }
                if self.rng.chance(1, 2) { self.lit(ty, d) } else { self.compound_source(ty, d) }
            }
        }
    }

    /// expressions that produce `ty` out of other constructs: if, match, index, field access, call, block
    fn compound_source(&mut self, ty: &Ty, d: usize) -> String {
        for _ in 0..4 {
            match self.rng.below(8) {
                0 | 1 => {
                    let c = if self.effects_in_exprs && self.rng.chance(1, 3) { let b = self.maybe_effect_block(&Ty::Bool, d); if b.contains("Sa {") { self.head_expr(&Ty::Bool, d) } else { b } } else { self.head_expr(&Ty::Bool, d) };
                    return format!("(if {c} {{ {} }} else {{ {} }})", self.branch(ty, d), self.branch(ty, d));
                }
                2 => return self.match_expr(ty, d),
                3 => { // index into an array variable
                    let cands: Vec<Var> = self.visible().into_iter().filter(|v| matches!(&v.ty, Ty::Arr(e, n) if **e == *ty && *n > 0)).collect();
                    if let Some(v) = cands.first().cloned() {
                        let n = if let Ty::Arr(_, n) = &v.ty { *n } else { 1 };
                        let idx = if self.rng.chance(3, 4) { format!("{}usize", self.rng.below(n + if self.profile == Profile::PanicDense { 1 } else { 0 })) } else { format!("({} as usize)", self.expr(&Ty::Int("u8"), d.min(1))) };
                        return format!("{}[{idx}]", v.name);
                    }
                }
                4 => { // tuple / struct field of a variable
                    for v in self.visible() {
                        match &v.ty {
                            Ty::Tup(fs) => if let Some(i) = fs.iter().position(|f| f == ty) { return format!("{}.{i}", v.name); },
                            Ty::Struct(si) => if let Some((n, _)) = self.structs[*si].1.iter().find(|(_, t)| t == ty) { return format!("{}.{n}", v.name); },
                            _ => {}
                        }
                    }
                }
                5 => { // call of an earlier fn with this return type
                    let cands: Vec<usize> = (0..self.in_fn.min(self.fns.len())).filter(|i| self.fns[*i].ret == *ty).collect();
                    if !cands.is_empty() {
                        let i = *self.rng.pick(&cands);
                        self.used_fns[i] = true;
                        let ps: Vec<Ty> = self.fns[i].params.iter().map(|p| p.1.clone()).collect();
                        let name = self.fns[i].name.clone();
                        return format!("{name}({})", ps.iter().map(|t| self.maybe_effect_block(t, d)).collect::<Vec<_>>().join(", "));
                    }
                }
                6 if self.effects_in_exprs => { // a block with an effect as an `if` branch
                    let c = self.head_expr(&Ty::Bool, d);
                    return format!("(if {c} {{ {} }} else {{ {} }})", self.block_with_effect(ty, d), self.branch(ty, d));
                }
                _ => {}
            }
        }
        self.lit(ty, d)
    }

    /// in effects mode: `{ v = e; <expr> }` in a position where a block expression is allowed
    /// (let initialiser, call argument, array / tuple element, if condition, index)
    fn maybe_effect_block(&mut self, ty: &Ty, d: usize) -> String {
        if self.effects_in_exprs && self.rng.chance(1, 3) {
            let muts: Vec<Var> = self.visible().into_iter().filter(|v| v.mutable && matches!(v.ty, Ty::Int(_) | Ty::Bool)).collect();
            if !muts.is_empty() { return format!("{{ {} }}", self.block_with_effect(ty, d)); }
        }
        self.expr(ty, d)
    }

    fn operand_maybe_effect(&mut self, ty: &Ty, d: usize) -> String {
        if self.effects_in_exprs && self.rng.chance(1, 3) {
            let muts: Vec<Var> = self.visible().into_iter().filter(|v| v.mutable && matches!(v.ty, Ty::Int(_) | Ty::Bool)).collect();
            if !muts.is_empty() { let b = self.block_with_effect(ty, d); if !b.contains("Sa {") { return format!("({{ {b} }})"); } }
        }
        self.expr(ty, d)
    }

    fn branch(&mut self, ty: &Ty, d: usize) -> String {
        self.scopes.push(vec![]);
        let mut s = String::new();
        if self.rng.chance(1, 4) {
            let t = self.scalar_ty();
            let n = self.fresh("l");
            let e = self.expr(&t, d);
            s += &format!("let {n}: {} = {e}; ", self.ty_str(&t));
            self.declare(&n, t, false);
        }
        s += &self.expr(ty, d);
        self.scopes.pop();
        s
    }

    fn block_with_effect(&mut self, ty: &Ty, d: usize) -> String {
        let muts: Vec<Var> = self.visible().into_iter().filter(|v| v.mutable && matches!(v.ty, Ty::Int(_) | Ty::Bool)).collect();
        self.scopes.push(vec![]);
        let mut s = String::new();
        if let Some(v) = muts.first() {
            // every other effect is not idempotent (flipping a bit), so evaluating the block twice is visible
            if self.rng.bool() {
                match &v.ty { Ty::Bool => s += &format!("{} = (!{}); ", v.name, v.name), Ty::Int(t) => s += &format!("{} = ({} ^ 1{t}); ", v.name, v.name), _ => {} }
            } else {
                let e = self.expr(&v.ty.clone(), d.min(1));
                s += &format!("{} = {e}; ", v.name);
            }
        }
        s += &self.expr(ty, d);
        self.scopes.pop();
        s
    }

    /// expression usable as the head of if / match / for (no struct literal allowed there)
    fn head_expr(&mut self, ty: &Ty, d: usize) -> String {
        // struct literals are not allowed anywhere inside the head of if / match / for
        for _ in 0..4 {
            let e = self.expr(ty, d);
            if !e.contains("Sa {") { return if e.contains('{') { format!("({e})") } else { e }; }
        }
        let vars = self.vars_of(ty);
        if !vars.is_empty() { return vars[0].name.clone(); }
        let l = self.lit(ty, 0);
        if l.contains("Sa {") { "true".into() } else { l }
    }

    fn match_expr(&mut self, ty: &Ty, d: usize) -> String {
        // scrutinee: bool, narrow int, enum or tuple of (bool, u8)
        let st = match self.rng.below(5) { 0 => Ty::Bool, 1 | 2 => Ty::Int(*self.rng.pick(&NARROW)), 3 if !self.enums.is_empty() => Ty::Enum(self.rng.below(self.enums.len())), _ => Ty::Tup(vec![Ty::Bool, Ty::Int("u8")]) };
        let svars = self.vars_of(&st);
        let scrut = if !svars.is_empty() && self.rng.chance(2, 3) { self.rng.pick(&svars).name.clone() } else { self.head_expr(&st, d) };
        let mut arms: Vec<String> = vec![];
        match &st {
            Ty::Bool => {
                if self.rng.bool() { arms.push(format!("true => {}", self.arm_body(ty, d, vec![]))); arms.push(format!("false => {}", self.arm_body(ty, d, vec![]))); }
                else { arms.push(format!("false => {}", self.arm_body(ty, d, vec![]))); arms.push(format!("_ => {}", self.arm_body(ty, d, vec![]))); }
            }
            Ty::Int(t) => {
                let t = *t;
                for _ in 0..(1 + self.rng.below(3)) {
                    let a = self.int_val(t); let b = self.int_val(t);
                    let (mut lo, hi) = (a.min(b), a.max(b));
                    // ranges that start exactly at 0 (the sign boundary of signed types)
                    if hi > 0 && self.rng.chance(1, 4) { lo = 0; }
                    // non-negative literals are also written without a suffix (for a signed scrutinee these are "unsigned" patterns)
                    let sfx = if lo >= 0 && self.rng.chance(1, 3) { "" } else { t };
                    let pat = match self.rng.below(3) { 0 => format!("{lo}{sfx}"), 1 if lo < hi => format!("{lo}{sfx}..={hi}{sfx}"), _ if lo < hi => format!("{lo}{sfx}..{hi}{sfx}"), _ => format!("{lo}{sfx}") };
                    arms.push(format!("{pat} => {}", self.arm_body(ty, d, vec![])));
                }
                if self.rng.bool() { arms.push(format!("_ => {}", self.arm_body(ty, d, vec![]))); }
                else { let n = self.fresh("m"); arms.push(format!("{n} => {}", self.arm_body(ty, d, vec![(n.clone(), st.clone())]))); }
            }
            Ty::Enum(i) => {
                let (name, variants) = self.enums[*i].clone();
                let skip = self.rng.below(variants.len() + 1);
                for (k, (vn, fts)) in variants.iter().enumerate() {
                    if k == skip { continue; }
                    if fts.is_empty() { arms.push(format!("{name}::{vn} => {}", self.arm_body(ty, d, vec![]))); }
                    else {
                        let mut binds = vec![]; let mut ps = vec![];
                        for ft in fts { if matches!(ft, Ty::Bool) && self.rng.chance(1, 3) { ps.push("true".to_string()); } else { let n = self.fresh("e"); ps.push(n.clone()); binds.push((n, ft.clone())); } }
                        let needs_fallback = ps.iter().any(|p| p == "true");
                        arms.push(format!("{name}::{vn}({}) => {}", ps.join(", "), self.arm_body(ty, d, binds)));
                        if needs_fallback && skip == variants.len() {
                            let ps2: Vec<String> = fts.iter().map(|_| "_".to_string()).collect();
                            arms.push(format!("{name}::{vn}({}) => {}", ps2.join(", "), self.arm_body(ty, d, vec![])));
                        }
                    }
                }
                if skip < variants.len() { arms.push(format!("_ => {}", self.arm_body(ty, d, vec![]))); }
            }
            _ => {
                let n = self.fresh("p");
                arms.push(format!("(true, {}u8) => {}", self.rng.below(256), self.arm_body(ty, d, vec![])));
                arms.push(format!("(false, {n}) => {}", self.arm_body(ty, d, vec![(n.clone(), Ty::Int("u8"))])));
                arms.push(format!("_ => {}", self.arm_body(ty, d, vec![])));
            }
        }
        format!("(match {scrut} {{ {} }})", arms.join(", "))
    }
    fn int_val(&mut self, t: &'static str) -> i128 {
        let n = bits(t);
        let (min, max) = if signed(t) { (-(1i128 << (n - 1)), (1i128 << (n - 1)) - 1) } else { (0, (1i128 << n) - 1) };
        match self.rng.below(6) { 0 => min, 1 => max, 2 => 0, 3 => 1, _ => min + (self.rng.next() as i128).rem_euclid(max - min + 1) }
    }
    fn arm_body(&mut self, ty: &Ty, d: usize, binds: Vec<(String, Ty)>) -> String {
        self.scopes.push(vec![]);
        for (n, t) in binds { self.declare(&n, t, false); }
        let e = self.expr(ty, d);
        self.scopes.pop();
        // a struct literal directly after `=>` is fine, a block needs no parens
        e
    }

    // ------------------------------------------------------------------ statements
    fn stmts(&mut self, n: usize, depth: usize, out: &mut String, indent: &str) {
        for _ in 0..n {
            let s = self.stmt(depth, indent);
            out.push_str(indent);
            out.push_str(&s);
            out.push('\n');
        }
    }

    fn assignable(&self) -> Vec<Var> { self.visible().into_iter().filter(|v| v.mutable).collect() }

    /// an accessor path into a value of type `ty`: (text, type of the place)
    fn place(&mut self, base: &str, ty: &Ty, d: usize) -> (String, Ty) {
        let mut text = base.to_string();
        let mut cur = ty.clone();
        for _ in 0..3 {
            if !self.rng.chance(2, 3) { break; }
            match cur.clone() {
                Ty::Arr(e, n) if n > 0 => {
                    let idx = if self.effects_in_exprs && self.rng.chance(1, 3) { format!("({} as usize)", self.operand_maybe_effect(&Ty::Int("u8"), d.min(1))) }
                              else if self.rng.chance(2, 3) { format!("{}usize", self.rng.below(n)) } else { format!("({} as usize)", self.expr(&Ty::Int("u8"), d.min(1))) };
                    text = format!("{text}[{idx}]"); cur = *e;
                }
                Ty::Tup(fs) => { let i = self.rng.below(fs.len()); text = format!("{text}.{i}"); cur = fs[i].clone(); }
                Ty::Struct(si) => { let fs = self.structs[si].1.clone(); let (n, t) = self.rng.pick(&fs).clone(); text = format!("{text}.{n}"); cur = t; }
                _ => break,
            }
        }
        (text, cur)
    }

    fn stmt(&mut self, depth: usize, indent: &str) -> String {
        let d = depth.saturating_sub(1);
        let mutw = if self.profile == Profile::Mutation { 5 } else { 2 };
        let k = self.rng.below(6 + 2 * mutw);
        let muts = self.assignable();
        if k >= 6 && !muts.is_empty() {
            // assignment / op-assignment through an accessor path
            let v = self.rng.pick(&muts).clone();
            let (place, pty) = self.place(&v.name, &v.ty, d);
            if let Ty::Int(t) = &pty {
                if self.rng.chance(1, 3) {
                    let op = *self.rng.pick(&["+=", "-=", "*=", "/=", "%=", "^=", "&=", "|=", ">>=", "<<="]);
                    let rhs = if op == ">>=" || op == "<<=" { format!("{}u8", self.rng.below(bits(t) as usize)) } else { self.expr(&pty, d) };
                    return format!("{place} {op} {rhs};");
                }
            }
            return format!("{place} = {};", self.expr(&pty, d));
        }
        match k % 6 {
            0 => { let t = self.any_ty(1); let n = self.fresh("v"); let e = self.maybe_effect_block(&t, d); let s = if self.rng.bool() { format!("let {n}: {} = {e};", self.ty_str(&t)) } else { format!("let {n} = {e};") }; self.declare(&n, t, false); s }
            1 => { let t = self.any_ty(1); let n = self.fresh("w"); let e = self.expr(&t, d); let s = format!("let mut {n}: {} = {e};", self.ty_str(&t)); self.declare(&n, t, true); s }
            2 => { // destructuring let
                let fs: Vec<Ty> = vec![self.scalar_ty(), self.scalar_ty()];
                let t = Ty::Tup(fs.clone());
                let e = self.expr(&t, d);
                let (n1, n2) = (self.fresh("x"), self.fresh("y"));
                let s = format!("let ({n1}, {n2}) = {e};");
                self.declare(&n1, fs[0].clone(), false); if n2 != n1 { self.declare(&n2, fs[1].clone(), false); } else { self.declare(&n1, fs[1].clone(), false); }
                s
            }
            3 if depth > 0 && self.rng.chance(1, 4) => { // for loop over the joined rows of two literal tables with strictly ascending keys
                let kt = *self.rng.pick(&["u8", "u16"]);
                let (ta, tb) = (self.scalar_ty(), self.scalar_ty());
                let mut table = |g: &mut Self, vt: &Ty| -> String {
                    let n = 1 + g.rng.below(3);
                    let mut key = g.rng.below(3);
                    let mut rows = vec![];
                    for _ in 0..n {
                        let mut v = g.expr(vt, d.min(1));
                        for _ in 0..4 { if !v.contains("Sa {") { break; } v = g.expr(vt, 0); }
                        rows.push(format!("({key}{kt}, {v})"));
                        key += 1 + g.rng.below(2);
                    }
                    format!("[{}]", rows.join(", "))
                };
                let a = table(self, &ta);
                let b = table(self, &tb);
                if a.contains("Sa {") || b.contains("Sa {") { return "let zz_nojoin = true;".to_string(); }
                let (k1, v1, k2, v2) = (self.fresh("k"), self.fresh("j"), self.fresh("k"), self.fresh("j"));
                self.scopes.push(vec![]);
                self.declare(&k1, Ty::Int(kt), false); self.declare(&v1, ta, false); self.declare(&k2, Ty::Int(kt), false); self.declare(&v2, tb, false);
                let mut body = String::new();
                let inner = format!("{indent}    ");
                let cnt = 1 + self.rng.below(2);
                self.stmts(cnt, d, &mut body, &inner);
                if self.profile == Profile::Mutation {
                    if let Some(v) = self.assignable().first().cloned() { if matches!(v.ty, Ty::Int(_) | Ty::Bool) { let e1 = self.expr(&v.ty, d); body += &format!("{inner}{} = {e1};\n", v.name); } }
                }
                self.scopes.pop();
                format!("for (({k1}, {v1}), ({k2}, {v2})) in join_iter({a}, {b}) {{\n{body}{indent}}}")
            }
            3 if depth > 0 => { // for loop over an array value or a range
                let et = self.scalar_ty();
                let n = 1 + self.rng.below(3);
                let (head, et) = if self.rng.chance(1, 3) { let lo = self.rng.below(3); (format!("{lo}usize..{}usize", lo + n), Ty::Int("usize")) } else { (self.head_expr(&Ty::Arr(Box::new(et.clone()), n), d), et) };
                // the loop variable is fresh or (mutation profile) reuses the name of a visible variable, which it shadows inside the loop only
                let outer_names: Vec<String> = self.visible().into_iter().map(|v| v.name).collect();
                let x = if self.profile == Profile::Mutation && !outer_names.is_empty() && self.rng.chance(1, 3) { self.rng.pick(&outer_names).clone() } else { self.fresh("i") };
                self.scopes.push(vec![]);
                self.declare(&x, et, false);
                let mut body = String::new();
                let inner = format!("{indent}    ");
                let cnt = 1 + self.rng.below(2);
                self.stmts(cnt, d, &mut body, &inner);
                if self.profile == Profile::Mutation {
                    let outer = self.assignable();
                    if let Some(v) = outer.first().cloned() {
                        if matches!(v.ty, Ty::Int(_) | Ty::Bool) {
                            let e1 = self.expr(&v.ty, d);
                            body += &format!("{inner}{} = {e1};\n", v.name);
                            if self.rng.chance(1, 2) {
                                let e2 = self.expr(&v.ty, d);
                                body += &format!("{inner}let {} = {e2};\n", v.name);
                                self.declare(&v.name, v.ty.clone(), false);
                            }
                        }
                    }
                }
                self.scopes.pop();
                format!("for {x} in {head} {{\n{body}{indent}}}")
            }
            4 if depth > 0 => { // if statement with effects in the branches
                let c = self.head_expr(&Ty::Bool, d);
                let inner = format!("{indent}    ");
                self.scopes.push(vec![]); let mut b1 = String::new(); let c1 = 1 + self.rng.below(2); self.stmts(c1, d, &mut b1, &inner); self.scopes.pop();
                if self.rng.bool() {
                    self.scopes.push(vec![]); let mut b2 = String::new(); let c2 = 1 + self.rng.below(2); self.stmts(c2, d, &mut b2, &inner); self.scopes.pop();
                    format!("if {c} {{\n{b1}{indent}}} else {{\n{b2}{indent}}}")
                } else { format!("if {c} {{\n{b1}{indent}}}") }
            }
            5 if depth > 0 => { // nested block with shadowing
                let inner = format!("{indent}    ");
                self.scopes.push(vec![]); let mut b = String::new(); let c = 1 + self.rng.below(3); self.stmts(c, d, &mut b, &inner); self.scopes.pop();
                format!("{{\n{b}{indent}}}")
            }
            _ => { let t = self.scalar_ty(); let n = self.fresh("v"); let e = self.expr(&t, d); let s = format!("let {n}: {} = {e};", self.ty_str(&t)); self.declare(&n, t, false); s }
        }
    }

    // ------------------------------------------------------------------ program
    pub fn program(&mut self) -> String {
        let mut out = String::new();
        if self.rng.chance(1, 2) {
            self.structs.push(("Sa".into(), vec![("fa".into(), Ty::Int("u8")), ("fb".into(), Ty::Bool), ("fc".into(), Ty::Int(*self.rng.pick(&["i16", "u16", "i8"])))]));
            let fs = self.structs[0].1.clone();
            // declared in a non-sorted order on purpose
            out += &format!("struct Sa {{ {}: {}, {}: {}, {}: {} }}\n", fs[2].0, self.ty_str(&fs[2].1), fs[0].0, self.ty_str(&fs[0].1), fs[1].0, self.ty_str(&fs[1].1));
        }
        if self.rng.chance(1, 2) {
            self.enums.push(("Ea".into(), vec![("Va".into(), vec![]), ("Vb".into(), vec![Ty::Int("u8")]), ("Vc".into(), vec![Ty::Bool, Ty::Int("i16")])]));
            out += "enum Ea { Va, Vb(u8), Vc(bool, i16) }\n";
        }
        if self.rng.chance(1, 2) {
            for k in 0..(1 + self.rng.below(2)) {
                let t = if self.rng.chance(1, 4) { Ty::Bool } else { Ty::Int(*self.rng.pick(&["u8", "i8", "u16", "usize", "i32"])) };
                let v = self.lit(&t, 0);
                out += &format!("const C{k}: {} = {v};\n", self.ty_str(&t));
                self.consts.push((format!("C{k}"), t));
            }
        }
        let nfns = self.rng.below(3);
        for i in 0..nfns {
            let np = 1 + self.rng.below(2);
            let params: Vec<(String, Ty, bool)> = (0..np).map(|k| (format!("p{k}"), self.any_ty(1), self.rng.chance(1, 3))).collect();
            let ret = self.any_ty(1);
            self.fns.push(FnSig { name: format!("f{i}"), params, ret });
            self.used_fns.push(false);
        }
        for i in 0..nfns {
            self.in_fn = i;
            let sig_params = self.fns[i].params.clone();
            let ret = self.fns[i].ret.clone();
            self.scopes = vec![sig_params.iter().map(|(n, t, m)| Var { name: n.clone(), ty: t.clone(), mutable: *m }).collect()];
            let ps: Vec<String> = sig_params.iter().map(|(n, t, m)| format!("{}{n}: {}", if *m { "mut " } else { "" }, self.ty_str(t))).collect();
            out += &format!("fn f{i}({}) -> {} {{\n", ps.join(", "), self.ty_str(&ret));
            let cnt = self.rng.below(3);
            self.stmts(cnt, 2, &mut out, "    ");
            let e = self.expr(&ret, 2);
            out += &format!("    {e}\n}}\n");
        }
        self.in_fn = nfns;
        let np = 1 + self.rng.below(3);
        let mut params: Vec<(String, Ty)> = vec![];
        for k in 0..np {
            // a single array parameter would be split into several parties: avoid that shape here
            let mut t = self.any_ty(2);
            if np == 1 { while matches!(t, Ty::Arr(_, _)) { t = self.any_ty(2); } }
            params.push((format!("x{k}"), t));
        }
        let ret = self.any_ty(2);
        let main_muts: Vec<bool> = params.iter().map(|_| self.rng.chance(1, 3)).collect();
        self.scopes = vec![params.iter().zip(main_muts.iter()).map(|((n, t), m)| Var { name: n.clone(), ty: t.clone(), mutable: *m }).collect()];
        let ps: Vec<String> = params.iter().zip(main_muts.iter()).map(|((n, t), m)| format!("{}{n}: {}", if *m { "mut " } else { "" }, self.ty_str(t))).collect();
        let main_header_at = out.len();
        // every private fn must be used
        let mut body = String::new();
        let cnt = 1 + self.rng.below(if self.profile == Profile::Mutation { 7 } else { 5 });
        self.stmts(cnt, 3, &mut body, "    ");
        let mut e = self.expr(&ret, 3);
        let mut ret_str = self.ty_str(&ret);
        if self.profile == Profile::Mutation {
            // observe every (mutable first) variable that is still in scope
            let mut vs = self.visible();
            vs.sort_by_key(|v| !v.mutable);
            vs.truncate(5);
            if !vs.is_empty() {
                e = format!("({}, {e})", vs.iter().map(|v| v.name.clone()).collect::<Vec<_>>().join(", "));
                ret_str = format!("({}, {ret_str})", vs.iter().map(|v| self.ty_str(&v.ty)).collect::<Vec<_>>().join(", "));
            }
        }
        let mut forced = String::new();
        for i in 0..nfns {
            // generated calls may have been discarded again: count what is really in the text
            let pat = format!("f{i}(");
            let occurrences = out.matches(&pat).count() + body.matches(&pat).count() + e.matches(&pat).count();
            self.used_fns[i] = occurrences >= 2;
            if !self.used_fns[i] {
                let saved = std::mem::replace(&mut self.scopes, vec![params.iter().map(|(n, t)| Var { name: n.clone(), ty: t.clone(), mutable: false }).collect()]);
                let ps: Vec<Ty> = self.fns[i].params.iter().map(|p| p.1.clone()).collect();
                let args: Vec<String> = ps.iter().map(|t| self.expr(t, 1)).collect();
                forced += &format!("    let u{i} = f{i}({});\n", args.join(", "));
                self.scopes = saved;
                self.used_fns[i] = true;
            }
        }
        out.insert_str(main_header_at, &format!("pub fn main({}) -> {} {{\n", ps.join(", "), ret_str));
        out += &forced;
        out += &body;
        out += &format!("    {e}\n}}\n");
        out
    }
}
