//! Rendering of the JSON AST (shape of GarbleSyntax / proj.rs) to Garble source text.
//! No semantics: every node is printed fully parenthesised.
use serde_json::Value;

pub fn ty(t: &Value) -> String {
    match t["k"].as_str().unwrap_or("?") {
        "bool" => "bool".into(),
        "int" => t["t"].as_str().unwrap_or("u8").into(),
        "arr" => format!("[{}; {}]", ty(&t["e"]), t["n"]),
        "tup" => format!("({})", t["fs"].as_array().unwrap().iter().map(ty).collect::<Vec<_>>().join(", ")),
        _ => t["name"].as_str().unwrap_or("Unknown").into(),
    }
}

fn num(v: &Value, t: &Value) -> String {
    let sfx = if t["k"] == "int" { t["t"].as_str().unwrap_or("") } else { "" };
    format!("{}{}", v.as_i64().unwrap_or(0), sfx)
}

fn op(o: &str) -> &'static str {
    match o { "add" => "+", "sub" => "-", "mul" => "*", "div" => "/", "mod" => "%", "and" => "&", "or" => "|", "xor" => "^", "gt" => ">", "lt" => "<", "eq" => "==", "ne" => "!=", "shl" => "<<", "shr" => ">>", "land" => "&&", "lor" => "||", "le" => "<=", "ge" => ">=", _ => "+" }
}

pub fn pat(p: &Value) -> String {
    match p["k"].as_str().unwrap_or("?") {
        "pid" => p["n"].as_str().unwrap().into(),
        "ptrue" => "true".into(),
        "pfalse" => "false".into(),
        "pnum" => if p["nosfx"].as_bool().unwrap_or(false) { format!("{}", p["v"].as_i64().unwrap_or(0)) } else { num(&p["v"], &p["ty"]) },
        "prange" => if p["nosfx"].as_bool().unwrap_or(false) { format!("{}..={}", p["lo"], p["hi"]) } else { format!("{}..={}", num(&p["lo"], &p["ty"]), num(&p["hi"], &p["ty"])) },
        "ptup" => format!("({})", p["ps"].as_array().unwrap().iter().map(pat).collect::<Vec<_>>().join(", ")),
        "pstruct" => {
            let mut fs: Vec<String> = p["fs"].as_array().unwrap().iter().map(|f| format!("{}: {}", f["n"].as_str().unwrap(), pat(&f["p"]))).collect();
            if p["rest"].as_bool().unwrap_or(false) { fs.push("..".into()); }
            format!("{} {{ {} }}", p["name"].as_str().unwrap(), fs.join(", "))
        }
        "penum" => {
            let ps = p["ps"].as_array().unwrap();
            if ps.is_empty() { format!("{}::{}", p["name"].as_str().unwrap(), p["v"].as_str().unwrap()) }
            else { format!("{}::{}({})", p["name"].as_str().unwrap(), p["v"].as_str().unwrap(), ps.iter().map(pat).collect::<Vec<_>>().join(", ")) }
        }
        _ => "_".into(),
    }
}

fn branch(e: &Value) -> String {
    if e["k"] == "block" { format!("{{ {} }}", stmts(e["ss"].as_array().unwrap())) } else if e["k"] == "tuplit" && e["es"].as_array().map(|a| a.is_empty()).unwrap_or(false) { "{ }".into() } else { format!("{{ {} }}", expr(e)) }
}

fn bare_if(e: &Value) -> String {
    let f = &e["f"];
    // `if c { .. }` without else is stored with an empty tuple as else branch
    if f["k"] == "tuplit" && f["es"].as_array().map(|a| a.is_empty()).unwrap_or(false) && e["t"]["k"] == "block" {
        format!("if {} {}", expr(&e["c"]), branch(&e["t"]))
    } else {
        format!("if {} {} else {}", expr(&e["c"]), branch(&e["t"]), branch(f))
    }
}
fn bare_match(e: &Value) -> String {
    // the parser wraps the single statement of every arm into a block
    let arms: Vec<String> = e["arms"].as_array().unwrap().iter().map(|a| {
        let b = &a["b"];
        let body = if b["k"] == "block" && b["ss"].as_array().map(|x| x.len() == 1).unwrap_or(false) {
            let st = stmt(&b["ss"][0], true);
            st.trim_end_matches(';').to_string()
        } else if b["k"] == "block" { branch(b) } else { expr(b) };
        format!("{} => {}", pat(&a["p"]), body)
    }).collect();
    format!("match {} {{ {} }}", expr(&e["e"]), arms.join(", "))
}

pub fn expr(e: &Value) -> String {
    match e["k"].as_str().unwrap_or("?") {
        "true" => "true".into(),
        "false" => "false".into(),
        "num" => if e["nosfx"].as_bool().unwrap_or(false) { format!("{}", e["v"].as_i64().unwrap_or(0)) } else { num(&e["v"], &e["ty"]) },
        "var" => e["n"].as_str().unwrap().into(),
        "arrlit" => format!("[{}]", e["es"].as_array().unwrap().iter().map(expr).collect::<Vec<_>>().join(", ")),
        "arrrep" => format!("[{}; {}]", expr(&e["e"]), e["n"]),
        "range" => { let t = if e["nosfx"].as_bool().unwrap_or(false) { "" } else { e["t"].as_str().unwrap() }; format!("{}{t}..{}{t}", e["lo"], e["hi"]) }
        "idx" => format!("{}[{}]", postfix_base(&e["a"]), expr(&e["i"])),
        "tuplit" => { let es = e["es"].as_array().unwrap(); if es.len() == 1 { format!("({},)", expr(&es[0])) } else { format!("({})", es.iter().map(expr).collect::<Vec<_>>().join(", ")) } }
        "tupacc" => format!("{}.{}", postfix_base(&e["e"]), e["i"]),
        "sacc" => format!("{}.{}", postfix_base(&e["e"]), e["f"].as_str().unwrap()),
        "slit" => format!("{} {{ {} }}", e["name"].as_str().unwrap(), e["fs"].as_array().unwrap().iter().map(|f| format!("{}: {}", f["n"].as_str().unwrap(), expr(&f["e"]))).collect::<Vec<_>>().join(", ")),
        "elit" => { let es = e["es"].as_array().unwrap(); if es.is_empty() { format!("{}::{}", e["name"].as_str().unwrap(), e["v"].as_str().unwrap()) } else { format!("{}::{}({})", e["name"].as_str().unwrap(), e["v"].as_str().unwrap(), es.iter().map(expr).collect::<Vec<_>>().join(", ")) } }
        "match" => format!("({})", bare_match(e)),
        "un" => format!("({}{})", if e["op"] == "not" { "!" } else { "-" }, expr(&e["e"])),
        "bin" => format!("({} {} {})", expr(&e["l"]), op(e["op"].as_str().unwrap()), expr(&e["r"])),
        // a block is an operand only inside parentheses
        "block" => format!("({{ {} }})", stmts(e["ss"].as_array().unwrap())),
        "call" => format!("{}({})", e["f"].as_str().unwrap(), e["args"].as_array().unwrap().iter().map(expr).collect::<Vec<_>>().join(", ")),
        "join" => format!("join({})", e["args"].as_array().unwrap().iter().map(expr).collect::<Vec<_>>().join(", ")),
        "if" => format!("({})", bare_if(e)),
        "cast" => format!("({} as {})", expr(&e["e"]), ty(&e["to"])),
        _ => "?".into(),
    }
}

fn postfix_base(e: &Value) -> String {
    match e["k"].as_str().unwrap_or("?") { "var" | "idx" | "tupacc" | "sacc" | "call" => expr(e), _ => format!("({})", expr(e)) }
}

pub fn stmt(s: &Value, last: bool) -> String {
    match s["k"].as_str().unwrap_or("?") {
        "let" => format!("let {} = {};", pat(&s["p"]), expr(&s["e"])),
        "letmut" => format!("let mut {} = {};", s["n"].as_str().unwrap(), expr(&s["e"])),
        "assign" => {
            let mut place = s["n"].as_str().unwrap().to_string();
            for a in s["acc"].as_array().unwrap() {
                match a["k"].as_str().unwrap() { "idx" => place += &format!("[{}]", expr(&a["i"])), "tup" => place += &format!(".{}", a["i"]), _ => place += &format!(".{}", a["f"].as_str().unwrap()) }
            }
            format!("{place} = {};", expr(&s["e"]))
        }
        "opassign" => {
            let mut place = s["n"].as_str().unwrap().to_string();
            for a in s["acc"].as_array().unwrap() {
                match a["k"].as_str().unwrap() { "idx" => place += &format!("[{}]", expr(&a["i"])), "tup" => place += &format!(".{}", a["i"]), _ => place += &format!(".{}", a["f"].as_str().unwrap()) }
            }
            format!("{place} {}= {};", op(s["op"].as_str().unwrap()), expr(&s["e"]))
        }
        "for" => format!("for {} in {} {{ {} }}", pat(&s["p"]), expr(&s["e"]), stmts_all(s["body"].as_array().unwrap())),
        "forjoin" => format!("for {} in join_iter({}, {}) {{ {} }}", pat(&s["p"]), expr(&s["a"]), expr(&s["b"]), stmts_all(s["body"].as_array().unwrap())),
        "expr" => {
            let e = &s["e"];
            match e["k"].as_str().unwrap_or("?") {
                "if" if !last => bare_if(e),
                "match" if !last => bare_match(e),
                "block" => format!("{{ {} }}", stmts(e["ss"].as_array().unwrap())),
                _ => if last { expr(e) } else { format!("{};", expr(e)) },
            }
        }
        _ => "?;".into(),
    }
}

/// statements of a block whose last expression statement is the value of the block
pub fn stmts(ss: &[Value]) -> String {
    ss.iter().enumerate().map(|(i, s)| stmt(s, i + 1 == ss.len())).collect::<Vec<_>>().join(" ")
}
/// statements of a loop body (no value)
fn stmts_all(ss: &[Value]) -> String {
    ss.iter().map(|s| stmt(s, false)).collect::<Vec<_>>().join(" ")
}

pub fn program(p: &Value) -> String {
    let mut out = String::new();
    let mut names: Vec<&String> = p["structs"].as_object().unwrap().keys().filter(|k| *k != "_").collect();
    names.sort();
    for n in names { out += &format!("struct {n} {{ {} }}\n", p["structs"][n].as_array().unwrap().iter().map(|f| format!("{}: {}", f["n"].as_str().unwrap(), ty(&f["t"]))).collect::<Vec<_>>().join(", ")); }
    let mut names: Vec<&String> = p["enums"].as_object().unwrap().keys().filter(|k| *k != "_").collect();
    names.sort();
    for n in names {
        out += &format!("enum {n} {{ {} }}\n", p["enums"][n].as_array().unwrap().iter().map(|v| { let fs = v["fs"].as_array().unwrap(); if fs.is_empty() { v["n"].as_str().unwrap().to_string() } else { format!("{}({})", v["n"].as_str().unwrap(), fs.iter().map(ty).collect::<Vec<_>>().join(", ")) } }).collect::<Vec<_>>().join(", "));
    }
    let mut names: Vec<&String> = p["consts"].as_object().unwrap().keys().filter(|k| *k != "_").collect();
    names.sort();
    for n in names { let c = &p["consts"][n]; let v = if c["ty"]["k"] == "bool" { (c["v"].as_i64().unwrap_or(0) != 0).to_string() } else { num(&c["v"], &c["ty"]) }; out += &format!("const {n}: {} = {v};\n", ty(&c["ty"])); }
    let mut names: Vec<&String> = p["fns"].as_object().unwrap().keys().collect();
    names.sort();
    for n in names {
        let f = &p["fns"][n];
        let ps: Vec<String> = f["params"].as_array().unwrap().iter().map(|q| format!("{}{}: {}", if q["mut"].as_bool().unwrap_or(false) { "mut " } else { "" }, q["n"].as_str().unwrap(), ty(&q["t"]))).collect();
        out += &format!("{}fn {n}({}) -> {} {{ {} }}\n", if f["pub"].as_bool().unwrap_or(false) { "pub " } else { "" }, ps.join(", "), ty(&f["ret"]), stmts(f["body"].as_array().unwrap()));
    }
    out
}
