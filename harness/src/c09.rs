//! C09: literal spellings emitted by Gen_Literals.tla replayed into the public literal API.
use crate::util::*;
use garble_lang::literal::{Literal, VariantLiteral};
use garble_lang::token::{SignedNumType, UnsignedNumType};
use serde_json::{json, Value};

const DEFS: &str = "struct P { a: u8, b: bool, c: i16 }\nenum E3 { A, B(u8), C(bool, i8) }\nenum E5 { V0, V1, V2(u16), V3, V4(bool) }\n";

fn ty_src(t: &Value) -> String {
    match t["k"].as_str().unwrap() {
        "bool" => "bool".into(),
        "int" => t["t"].as_str().unwrap().into(),
        "arr" => format!("[{}; {}]", ty_src(&t["e"]), t["n"]),
        "tup" => format!("({})", t["fs"].as_array().unwrap().iter().map(ty_src).collect::<Vec<_>>().join(", ")),
        _ => t["name"].as_str().unwrap().into(),
    }
}
fn uty(s: &str) -> UnsignedNumType { match s { "u8" => UnsignedNumType::U8, "u16" => UnsignedNumType::U16, "u32" => UnsignedNumType::U32, "u64" => UnsignedNumType::U64, "usize" => UnsignedNumType::Usize, _ => UnsignedNumType::Unspecified } }
fn sty(s: &str) -> SignedNumType { match s { "i8" => SignedNumType::I8, "i16" => SignedNumType::I16, "i32" => SignedNumType::I32, "i64" => SignedNumType::I64, _ => SignedNumType::Unspecified } }

/// JSON literal (shape of Gen_Literals.tla) -> Literal; None if it cannot be represented at all
fn lit(v: &Value) -> Option<Literal> {
    Some(match v["k"].as_str()? {
        "true" => Literal::True,
        "false" => Literal::False,
        "u" => { let n = v["v"].as_i64()?; if n < 0 { return None; } Literal::NumUnsigned(n as u64, uty(v["t"].as_str()?)) }
        "i" => Literal::NumSigned(v["v"].as_i64()?, sty(v["t"].as_str()?)),
        "arr" => Literal::Array(v["es"].as_array()?.iter().map(lit).collect::<Option<_>>()?),
        "tup" => Literal::Tuple(v["es"].as_array()?.iter().map(lit).collect::<Option<_>>()?),
        "rep" => Literal::ArrayRepeat(Box::new(lit(&v["e"])?), v["n"].as_u64()? as usize),
        "range" => { let (lo, hi) = (v["lo"].as_i64()?, v["hi"].as_i64()?); if lo < 0 || hi < 0 { return None; } Literal::Range(lo as u64, hi as u64, uty(v["t"].as_str()?)) }
        "struct" => Literal::Struct(v["name"].as_str()?.into(), v["fs"].as_array()?.iter().map(|f| Some((f["n"].as_str()?.to_string(), lit(&f["l"])?))).collect::<Option<_>>()?),
        "enum" => {
            let es: Vec<Literal> = v["es"].as_array()?.iter().map(lit).collect::<Option<_>>()?;
            Literal::Enum(v["name"].as_str()?.into(), v["v"].as_str()?.into(), if v["unit"].as_bool()? { VariantLiteral::Unit } else { VariantLiteral::Tuple(es) })
        }
        _ => return None,
    })
}

fn bits_of(v: &Value) -> Vec<bool> { v.as_array().unwrap().iter().map(|x| x.as_u64().unwrap() == 1).collect() }

/// literals-replay <cases.ndjson> <results.ndjson>
pub fn cmd_replay(args: &[String]) {
    quiet_panics();
    let mut w = writer(&args[1]);
    let (mut ncases, mut nchecks, mut bad) = (0u64, 0u64, 0u64);
    let mut cache: std::collections::HashMap<String, garble_lang::GarbleProgram> = std::collections::HashMap::new();
    for line in read_lines(&args[0]) {
        let c: Value = serde_json::from_str(&line).unwrap();
        ncases += 1;
        let tsrc = ty_src(&c["ty"]);
        let src = format!("{DEFS}pub fn main(x: {tsrc}, pad: bool) -> {tsrc} {{ x }}\n");
        if !cache.contains_key(&src) {
            match guarded(|| garble_lang::compile(&src)) {
                Ok(Ok(p)) => { cache.insert(src.clone(), p); }
                other => { bad += 1; emit(&mut w, &json!({"bad": true, "what": "identity-program-rejected", "ty": c["ty"], "src": src, "observed": format!("{:?}", other.map(|r| r.map(|_| ()).map_err(|e| e.prettify(&src))))})); continue; }
            }
        }
        let p = &cache[&src];
        let expected = bits_of(&c["bits"]);
        let mut report = |what: &str, spelling: &Value, observed: String, w: &mut std::io::BufWriter<std::fs::File>| {
            emit(w, &json!({"bad": true, "what": what, "ty": c["ty"], "v": c["v"], "src": src, "spelling": spelling, "expected_bits": c["bits"], "observed": observed}));
        };
        // all spellings, the canonical one first
        let mut spellings = vec![json!({"den": "canon", "why": "canonical", "lit": c["canon"]})];
        spellings.extend(c["spellings"].as_array().unwrap().iter().cloned());
        for s in spellings.iter() {
            let den = s["den"].as_str().unwrap();
            let Some(l) = lit(&s["lit"]) else { continue };
            nchecks += 1;
            // literal_arg + as_bits
            let l2 = l.clone();
            let r = guarded(|| p.literal_arg(0, l2).map(|a| a.as_bits()));
            // set_literal
            let l3 = l.clone();
            let r2 = guarded(|| { let mut e = p.evaluator(); e.set_literal(l3).is_ok() });
            let verdict: Option<String> = match (&r, den) {
                (Err(m), _) => Some(format!("literal_arg/as_bits panicked: {m}")),
                (Ok(Ok(bits)), "canon") | (Ok(Ok(bits)), "same") => if *bits != expected { Some(format!("accepted but encodes to {:?}", bits.iter().map(|b| *b as u8).collect::<Vec<_>>())) } else { None },
                (Ok(Err(e)), "canon") => Some(format!("canonical value refused: {e}")),
                (Ok(Err(_)), _) => None,
                (Ok(Ok(bits)), _) => Some(format!("spelling that denotes no value of the type was accepted ({} bits)", bits.len())),
            };
            if let Some(m) = verdict { bad += 1; report(&format!("literal_arg:{den}:{}", s["why"].as_str().unwrap()), s, m, &mut w); }
            match (&r2, &r) {
                (Err(m), _) => { bad += 1; report(&format!("set_literal:{den}:{}", s["why"].as_str().unwrap()), s, format!("set_literal panicked: {m}"), &mut w); }
                (Ok(acc2), Ok(r1)) if *acc2 != r1.is_ok() => { bad += 1; report(&format!("set_literal:{den}:{}", s["why"].as_str().unwrap()), s, format!("set_literal accepts={acc2} but literal_arg accepts={}", r1.is_ok()), &mut w); }
                _ => {}
            }
            if den == "canon" {
                if let Ok(Ok(bits)) = &r {
                    // identity program
                    let circ = p.circuit.clone();
                    let inp = vec![bits.clone(), vec![true]];
                    match guarded(move || circ.eval(&inp)) {
                        Ok(o) => if o[0] || o[161..] != expected[..] { bad += 1; report("identity-program", s, format!("identity program returns {:?}", o[161..].iter().map(|b| *b as u8).collect::<Vec<_>>()), &mut w); },
                        Err(m) => { bad += 1; report("identity-program", s, format!("eval panicked: {m}"), &mut w); }
                    }
                    // decode
                    match guarded(|| Literal::from_unwrapped_bits(&p.program, &p.main.params[0].ty, &expected, &p.const_sizes)) {
                        Ok(Ok(back)) => if back != l { bad += 1; report("decode", s, format!("bits decode to {back}"), &mut w); },
                        Ok(Err(e)) => { bad += 1; report("decode", s, format!("decode error: {e}"), &mut w); }
                        Err(m) => { bad += 1; report("decode", s, format!("decode panicked: {m}"), &mut w); }
                    }
                    // print / parse
                    let text = l.to_string();
                    match guarded(|| p.parse_arg(0, &text).map(|a| a.as_literal())) {
                        Ok(Ok(back)) => if back != l { bad += 1; report("print-parse", s, format!("'{text}' parses back as {back:?}"), &mut w); },
                        Ok(Err(e)) => { bad += 1; report("print-parse", s, format!("'{text}' is refused: {e}"), &mut w); }
                        Err(m) => { bad += 1; report("print-parse", s, format!("parse_arg panicked on '{text}': {m}"), &mut w); }
                    }
                    // text spellings that denote nothing
                    let mut texts = vec![format!("{text} {text}"), format!("{text} 1"), format!("({text}"), format!("{text} +"), String::new()];
                    if let Literal::NumUnsigned(n, _) = &l { if *n > 0 { texts.push(format!("-{text}")); } }
                    for t in texts {
                        nchecks += 1;
                        match guarded(|| p.parse_arg(0, &t).map(|a| a.as_literal())) {
                            Ok(Err(_)) => {}
                            Ok(Ok(back)) => { bad += 1; report("text:nothing", &json!({"text": t}), format!("text '{t}' accepted as {back}"), &mut w); }
                            Err(m) => { bad += 1; report("text:nothing", &json!({"text": t}), format!("parse_arg panicked on '{t}': {m}"), &mut w); }
                        }
                    }
                }
            }
        }
    }
    emit(&mut w, &json!({"summary": true, "cases": ncases, "checks": nchecks, "bad": bad}));
}
