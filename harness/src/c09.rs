//! C09: literal spellings emitted by Gen_Literals.tla replayed into the public literal API.
use crate::util::*;
use garble_lang::literal::{Literal, VariantLiteral};
use garble_lang::token::{SignedNumType, UnsignedNumType};
use serde_json::{json, Value};

const DEFS: &str = "struct P { a: u8, b: bool, c: i16 }\nenum E3 { A, B(u8), C(bool, i8) }\nenum E5 { V0, V1, V2(u16), V3, V4(bool) }\n";

fn ty_src(t: &Value) -> String {
    match t["k"].as_str().unwrap() {
        "bool" => "bool".into(),
        "int" => t["t"].as_str().unwrap().into(),
        "arr" => format!("[{}; {}]", ty_src(&t["e"]), t["n"]),
        "tup" => format!("({})", t["fs"].as_array().unwrap().iter().map(ty_src).collect::<Vec<_>>().join(", ")),
        _ => t["name"].as_str().unwrap().into(),
    }
}
fn uty(s: &str) -> UnsignedNumType { match s { "u8" => UnsignedNumType::U8, "u16" => UnsignedNumType::U16, "u32" => UnsignedNumType::U32, "u64" => UnsignedNumType::U64, "usize" => UnsignedNumType::Usize, _ => UnsignedNumType::Unspecified } }
fn sty(s: &str) -> SignedNumType { match s { "i8" => SignedNumType::I8, "i16" => SignedNumType::I16, "i32" => SignedNumType::I32, "i64" => SignedNumType::I64, _ => SignedNumType::Unspecified } }

/// JSON literal (shape of Gen_Literals.tla) -> Literal; None if it cannot be represented at all
fn lit(v: &Value) -> Option<Literal> {
    Some(match v["k"].as_str()? {
        "true" => Literal::True,
        "false" => Literal::False,
        "u" | "i" if v.get("rel").is_some() => {
            // bound-relative number of a wide type: max + v or min - v, in i128; None if the Literal cannot hold it
            let t = v["t"].as_str()?;
            let (min, max): (i128, i128) = match t { "u32" | "usize" => (0, u32::MAX as i128), "u64" => (0, u64::MAX as i128), "i32" => (i32::MIN as i128, i32::MAX as i128), "i64" => (i64::MIN as i128, i64::MAX as i128), _ => return None };
            let d = v["v"].as_i64()? as i128;
            let n = if v["rel"].as_str()? == "max" { max + d } else { min - d };
            if v["k"].as_str()? == "u" { Literal::NumUnsigned(u64::try_from(n).ok()?, uty(t)) } else { Literal::NumSigned(i64::try_from(n).ok()?, sty(t)) }
        }
        "u" => { let n = v["v"].as_i64()?; if n < 0 { return None; } Literal::NumUnsigned(n as u64, uty(v["t"].as_str()?)) }
        "i" => Literal::NumSigned(v["v"].as_i64()?, sty(v["t"].as_str()?)),
        "arr" => Literal::Array(v["es"].as_array()?.iter().map(lit).collect::<Option<_>>()?),
        "tup" => Literal::Tuple(v["es"].as_array()?.iter().map(lit).collect::<Option<_>>()?),
        "rep" => Literal::ArrayRepeat(Box::new(lit(&v["e"])?), v["n"].as_u64()? as usize),
        "range" => { let (lo, hi) = (v["lo"].as_i64()?, v["hi"].as_i64()?); if lo < 0 || hi < 0 { return None; } Literal::Range(lo as u64, hi as u64, uty(v["t"].as_str()?)) }
        "struct" => Literal::Struct(v["name"].as_str()?.into(), v["fs"].as_array()?.iter().map(|f| Some((f["n"].as_str()?.to_string(), lit(&f["l"])?))).collect::<Option<_>>()?),
        "enum" => {
            let es: Vec<Literal> = v["es"].as_array()?.iter().map(lit).collect::<Option<_>>()?;
            Literal::Enum(v["name"].as_str()?.into(), v["v"].as_str()?.into(), if v["unit"].as_bool()? { VariantLiteral::Unit } else { VariantLiteral::Tuple(es) })
        }
        _ => return None,
    })
}

fn bits_of(v: &Value) -> Vec<bool> { v.as_array().unwrap().iter().map(|x| x.as_u64().unwrap() == 1).collect() }

/// literals-replay <cases.ndjson> <results.ndjson>
pub fn cmd_replay(args: &[String]) {
    quiet_panics();
    let mut w = writer(&args[1]);
    let (mut ncases, mut nchecks, mut bad) = (0u64, 0u64, 0u64);
    let mut cache: std::collections::HashMap<String, garble_lang::GarbleProgram> = std::collections::HashMap::new();
    for line in read_lines(&args[0]) {
        let c: Value = serde_json::from_str(&line).unwrap();
        ncases += 1;
        let tsrc = ty_src(&c["ty"]);
        let src = format!("{DEFS}pub fn main(x: {tsrc}, pad: bool) -> {tsrc} {{ x }}\n");
        if !cache.contains_key(&src) {
            match guarded(|| garble_lang::compile(&src)) {
                Ok(Ok(p)) => { cache.insert(src.clone(), p); }
                other => { bad += 1; emit(&mut w, &json!({"bad": true, "what": "identity-program-rejected", "ty": c["ty"], "src": src, "observed": format!("{:?}", other.map(|r| r.map(|_| ()).map_err(|e| e.prettify(&src))))})); continue; }
            }
        }
        let p = &cache[&src];
        let expected = bits_of(&c["bits"]);
        let mut report = |what: &str, spelling: &Value, observed: String, w: &mut std::io::BufWriter<std::fs::File>| {
            emit(w, &json!({"bad": true, "what": what, "ty": c["ty"], "v": c["v"], "src": src, "spelling": spelling, "expected_bits": c["bits"], "observed": observed}));
        };
        // all spellings, the canonical one first
        let mut spellings = vec![json!({"den": "canon", "why": "canonical", "lit": c["canon"]})];
        spellings.extend(c["spellings"].as_array().unwrap().iter().cloned());
        for s in spellings.iter() {
            let den = s["den"].as_str().unwrap();
            let Some(l) = lit(&s["lit"]) else { continue };
            nchecks += 1;
            // literal_arg + as_bits
            let l2 = l.clone();
            let r = guarded(|| p.literal_arg(0, l2).map(|a| a.as_bits()));
            // set_literal
            let l3 = l.clone();
            let r2 = guarded(|| { let mut e = p.evaluator(); e.set_literal(l3).is_ok() });
            let verdict: Option<String> = match (&r, den) {
                (Err(m), _) => Some(format!("literal_arg/as_bits panicked: {m}")),
                (Ok(Ok(bits)), "canon") | (Ok(Ok(bits)), "same") => if *bits != expected { Some(format!("accepted but encodes to {:?}", bits.iter().map(|b| *b as u8).collect::<Vec<_>>())) } else { None },
                (Ok(Err(e)), "canon") => Some(format!("canonical value refused: {e}")),
                (Ok(Err(_)), _) => None,
                (Ok(Ok(bits)), _) => Some(format!("spelling that denotes no value of the type was accepted ({} bits)", bits.len())),
            };
            if let Some(m) = verdict { bad += 1; report(&format!("literal_arg:{den}:{}", s["why"].as_str().unwrap()), s, m, &mut w); }
            match (&r2, &r) {
                (Err(m), _) => { bad += 1; report(&format!("set_literal:{den}:{}", s["why"].as_str().unwrap()), s, format!("set_literal panicked: {m}"), &mut w); }
                (Ok(acc2), Ok(r1)) if *acc2 != r1.is_ok() => { bad += 1; report(&format!("set_literal:{den}:{}", s["why"].as_str().unwrap()), s, format!("set_literal accepts={acc2} but literal_arg accepts={}", r1.is_ok()), &mut w); }
                _ => {}
            }
            if den == "canon" {
                if let Ok(Ok(bits)) = &r {
                    // identity program
                    let circ = p.circuit.clone();
                    let inp = vec![bits.clone(), vec![true]];
                    match guarded(move || circ.eval(&inp)) {
                        Ok(o) => if o[0] || o[161..] != expected[..] { bad += 1; report("identity-program", s, format!("identity program returns {:?}", o[161..].iter().map(|b| *b as u8).collect::<Vec<_>>()), &mut w); },
                        Err(m) => { bad += 1; report("identity-program", s, format!("eval panicked: {m}"), &mut w); }
                    }
                    // decode
                    match guarded(|| Literal::from_unwrapped_bits(&p.program, &p.main.params[0].ty, &expected, &p.const_sizes)) {
                        Ok(Ok(back)) => if back != l { bad += 1; report("decode", s, format!("bits decode to {back}"), &mut w); },
                        Ok(Err(e)) => { bad += 1; report("decode", s, format!("decode error: {e}"), &mut w); }
                        Err(m) => { bad += 1; report("decode", s, format!("decode panicked: {m}"), &mut w); }
                    }
                    // print / parse
                    let text = l.to_string();
                    match guarded(|| p.parse_arg(0, &text).map(|a| a.as_literal())) {
                        Ok(Ok(back)) => if back != l { bad += 1; report("print-parse", s, format!("'{text}' parses back as {back:?}"), &mut w); },
                        Ok(Err(e)) => { bad += 1; report("print-parse", s, format!("'{text}' is refused: {e}"), &mut w); }
                        Err(m) => { bad += 1; report("print-parse", s, format!("parse_arg panicked on '{text}': {m}"), &mut w); }
                    }
                    // text spellings that denote nothing
                    let mut texts = vec![format!("{text} {text}"), format!("{text} 1"), format!("({text}"), format!("{text} +"), String::new()];
                    if let Literal::NumUnsigned(n, _) = &l { if *n > 0 { texts.push(format!("-{text}")); } }
                    for t in texts {
                        nchecks += 1;
                        match guarded(|| p.parse_arg(0, &t).map(|a| a.as_literal())) {
                            Ok(Err(_)) => {}
                            Ok(Ok(back)) => { bad += 1; report("text:nothing", &json!({"text": t}), format!("text '{t}' accepted as {back}"), &mut w); }
                            Err(m) => { bad += 1; report("text:nothing", &json!({"text": t}), format!("parse_arg panicked on '{t}': {m}"), &mut w); }
                        }
                    }
                }
            }
        }
    }
    emit(&mut w, &json!({"summary": true, "cases": ncases, "checks": nchecks, "bad": bad}));
}

// ---------------------------------------------------------------------------------------------------------
// evaluation sessions (EvalSession.tla): every call history of the bound is replayed into a real Evaluator

fn kind_ty(k: &str) -> &'static str { match k { "u8" => "u8", "bool" => "bool", "i16" => "i16", "pair" => "(u8, bool)", _ => "[u8; 2]" } }
fn kind_literal(k: &str) -> Literal {
    match k {
        "u8" => Literal::NumUnsigned(7, UnsignedNumType::U8),
        "bool" => Literal::True,
        "i16" => Literal::NumSigned(-3, SignedNumType::I16),
        "pair" => Literal::Tuple(vec![Literal::NumUnsigned(7, UnsignedNumType::U8), Literal::True]),
        _ => Literal::Array(vec![Literal::NumUnsigned(1, UnsignedNumType::U8), Literal::NumUnsigned(2, UnsignedNumType::U8)]),
    }
}
fn kind_text(k: &str) -> &'static str { match k { "u8" => "7u8", "bool" => "true", "i16" => "-3i16", "pair" => "(7u8, true)", _ => "[1u8, 2u8]" } }

/// session-replay <cases.ndjson> <results.ndjson>
pub fn cmd_session_replay(args: &[String]) {
    quiet_panics();
    let mut w = writer(&args[1]);
    let mut programs: std::collections::HashMap<String, garble_lang::GarbleProgram> = std::collections::HashMap::new();
    let (mut n, mut bad) = (0u64, 0u64);
    for line in read_lines(&args[0]) {
        let c: Value = serde_json::from_str(&line).unwrap();
        n += 1;
        let params: Vec<&str> = c["params"].as_array().unwrap().iter().map(|p| p.as_str().unwrap()).collect();
        let sig = params.join(",");
        if !programs.contains_key(&sig) {
            let src = format!("pub fn main({}) -> u8 {{ 0u8 }}", params.iter().enumerate().map(|(i, k)| format!("p{i}: {}", kind_ty(k))).collect::<Vec<_>>().join(", "));
            match guarded(|| garble_lang::compile(&src)) { Ok(Ok(p)) => { programs.insert(sig.clone(), p); } other => { emit(&mut w, &json!({"bad": true, "what": "signature-program-rejected", "case": c, "observed": format!("{:?}", other.map(|r| r.map(|_| ()).map_err(|e| e.prettify(&src))))})); bad += 1; continue; } }
        }
        let prg = &programs[&sig];
        let hist = c["hist"].as_array().unwrap();
        let outcome = guarded(|| {
            let mut ev = prg.evaluator();
            let mut obs: Vec<bool> = vec![];
            for h in hist {
                let k = h["k"].as_str().unwrap();
                match h["c"].as_str().unwrap() {
                    "prim" => { match k { "u8" => ev.set_u8(7), "bool" => ev.set_bool(true), _ => ev.set_i16(-3) }; obs.push(true); }
                    "lit" => obs.push(ev.set_literal(kind_literal(k)).is_ok()),
                    "text" => obs.push(ev.parse_literal(kind_text(k)).is_ok()),
                    _ => { obs.push(ev.run().is_ok()); break; }
                }
            }
            obs
        });
        let expected: Vec<bool> = hist.iter().map(|h| h["ok"].as_bool().unwrap()).collect();
        match outcome {
            Ok(obs) if obs == expected => {}
            Ok(obs) => { bad += 1; emit(&mut w, &json!({"bad": true, "what": "session-outcome", "case": c, "observed": obs})); }
            Err(m) => { bad += 1; emit(&mut w, &json!({"bad": true, "what": "session-panic", "case": c, "observed": m})); }
        }
    }
    emit(&mut w, &json!({"summary": true, "n": n, "bad": bad}));
}
