//! C03: replay of the oracle's operator / cast tables into compiled programs, and recording of
//! wide-type operator events.
use crate::util::*;
use garble_lang::{compile, GarbleProgram};
use serde_json::{json, Value};
use std::collections::HashMap;

const PANIC_BITS: usize = 161;
pub const OVERFLOW: i64 = 100001;
pub const DIVZERO: i64 = 100002;
pub const ZERO_OR_OVERFLOW: i64 = 100003;

pub fn op_sym(op: &str) -> &'static str {
    match op {
        "add" => "+", "sub" => "-", "mul" => "*", "div" => "/", "mod" => "%", "and" => "&", "or" => "|", "xor" => "^",
        "shl" => "<<", "shr" => ">>", "lt" => "<", "gt" => ">", "le" => "<=", "ge" => ">=", "eq" => "==", "ne" => "!=",
        "neg" => "-", "not" => "!",
        o => panic!("op {o}"),
    }
}
pub fn is_cmp(op: &str) -> bool { matches!(op, "lt" | "gt" | "le" | "ge" | "eq" | "ne") }
pub fn is_shift(op: &str) -> bool { matches!(op, "shl" | "shr") }
pub fn bits_of(ty: &str) -> usize { match ty { "bool" => 1, "u8" | "i8" => 8, "u16" | "i16" => 16, "u32" | "i32" | "usize" => 32, _ => 64 } }
pub fn is_signed(ty: &str) -> bool { ty.starts_with('i') }

pub fn to_bits(v: i128, n: usize) -> Vec<bool> { (0..n).map(|i| (v >> (n - 1 - i)) & 1 == 1).collect() }
pub fn from_bits(b: &[bool], signed: bool) -> i128 {
    let mut v: i128 = 0;
    for x in b { v = (v << 1) | (*x as i128); }
    if signed && !b.is_empty() && b[0] { v -= 1i128 << b.len(); }
    v
}
pub fn lit(v: i128, ty: &str) -> String { if ty == "bool" { (v != 0).to_string() } else { format!("{v}{ty}") } }

/// observed outcome of one evaluation: Ok(value) / panic reason code
pub fn observe(p: &GarbleProgram, inputs: &[Vec<bool>], out_signed: bool) -> Result<i64, String> {
    let c = p.circuit.clone();
    let inp = inputs.to_vec();
    let out = guarded(move || c.eval(&inp))?;
    if out[0] {
        let reason = from_bits(&out[1..33], false) as i64;
        Ok(match reason { 1 => OVERFLOW, 2 => DIVZERO, r => 200000 + r })
    } else {
        Ok(from_bits(&out[PANIC_BITS..], out_signed) as i64)
    }
}

fn agrees(expected: i64, observed: i64) -> bool {
    if expected == ZERO_OR_OVERFLOW { observed == 0 || observed == OVERFLOW } else { expected == observed }
}

fn compile_or(src: &str) -> Result<GarbleProgram, String> {
    match guarded(|| compile(src)) { Ok(Ok(p)) => Ok(p), Ok(Err(e)) => Err(format!("compile error: {}", e.prettify(src))), Err(m) => Err(format!("compiler panic: {m}")) }
}

/// intops-replay <rows.ndjson> <results.ndjson> <consts: boundary|all>
pub fn cmd_replay(args: &[String]) {
    quiet_panics();
    let mut w = writer(&args[1]);
    let all_consts = args[2] == "all";
    // tables[(op,ty)][a_index][b_index]
    let mut tables: HashMap<(String, String), Vec<Option<Vec<i64>>>> = HashMap::new();
    let mut n_evals: u64 = 0;
    let mut n_rows: u64 = 0;
    let mut bad: u64 = 0;
    let mut report = |w: &mut std::io::BufWriter<std::fs::File>, bucket: String, case: Value, expected: i64, observed: String| {
        emit(w, &json!({"bad": true, "bucket": bucket, "case": case, "expected": expected, "observed": observed}));
    };
    for line in read_lines(&args[0]) {
        let row: Value = serde_json::from_str(&line).unwrap();
        n_rows += 1;
        let kind = row["kind"].as_str().unwrap();
        match kind {
            "bin" => {
                let op = row["op"].as_str().unwrap().to_string();
                let ty = row["ty"].as_str().unwrap().to_string();
                let a = row["a"].as_i64().unwrap();
                let outs: Vec<i64> = row["outs"].as_array().unwrap().iter().map(|x| x.as_i64().unwrap()).collect();
                let min = if is_signed(&ty) { -128 } else { 0 };
                let t = tables.entry((op, ty)).or_insert_with(|| vec![None; 256]);
                t[(a - min) as usize] = Some(outs);
            }
            "un" | "boolbin" => {
                let op = row["op"].as_str().unwrap();
                let ty = row["ty"].as_str().unwrap();
                let outs: Vec<i64> = row["outs"].as_array().unwrap().iter().map(|x| x.as_i64().unwrap()).collect();
                if kind == "un" {
                    let src = format!("pub fn main(x: {ty}) -> {ty} {{ {}x }}", op_sym(op));
                    match compile_or(&src) {
                        Ok(p) => {
                            let min: i128 = if is_signed(ty) { -128 } else { 0 };
                            for (i, e) in outs.iter().enumerate() {
                                let x = min + i as i128;
                                n_evals += 1;
                                let o = observe(&p, &[to_bits(x, 8)], is_signed(ty));
                                if o.as_ref().map(|o| !agrees(*e, *o)).unwrap_or(true) {
                                    bad += 1;
                                    report(&mut w, format!("un:{op}:{ty}"), json!({"src": src, "x": x as i64}), *e, format!("{o:?}"));
                                }
                            }
                        }
                        Err(m) => { bad += 1; report(&mut w, format!("un:{op}:{ty}:compile"), json!({"src": src}), 0, m); }
                    }
                } else {
                    let rty = "bool";
                    let src = format!("pub fn main(x: bool, y: bool) -> {rty} {{ x {} y }}", op_sym(op));
                    match compile_or(&src) {
                        Ok(p) => {
                            for (i, e) in outs.iter().enumerate() {
                                let (x, y) = ((i >> 1) & 1 == 1, i & 1 == 1);
                                n_evals += 1;
                                let o = observe(&p, &[vec![x], vec![y]], false);
                                if o.as_ref().map(|o| !agrees(*e, *o)).unwrap_or(true) {
                                    bad += 1;
                                    report(&mut w, format!("boolbin:{op}"), json!({"src": src, "x": x, "y": y}), *e, format!("{o:?}"));
                                }
                            }
                        }
                        Err(m) => { bad += 1; report(&mut w, format!("boolbin:{op}:compile"), json!({"src": src}), 0, m); }
                    }
                }
            }
            "cast" => {
                let from = row["from"].as_str().unwrap();
                let to = row["to"].as_str().unwrap();
                let lo = row["lo"].as_i64().unwrap() as i128;
                let src = format!("pub fn main(x: {from}) -> {to} {{ x as {to} }}");
                match compile_or(&src) {
                    Ok(p) => {
                        for (i, e) in row["bits"].as_array().unwrap().iter().enumerate() {
                            let x = lo + i as i128;
                            let exp: Vec<bool> = e.as_array().unwrap().iter().map(|b| b.as_u64().unwrap() == 1).collect();
                            let alt: Option<Vec<bool>> = row["alt"].as_array().and_then(|a| a.get(i)).map(|e| e.as_array().unwrap().iter().map(|b| b.as_u64().unwrap() == 1).collect());
                            n_evals += 1;
                            let c = p.circuit.clone();
                            let inp = vec![to_bits(x, bits_of(from))];
                            let o = guarded(move || c.eval(&inp));
                            let ok = match &o { Ok(out) => !out[0] && (out[PANIC_BITS..] == exp[..] || alt.as_ref().map(|a| out[PANIC_BITS..] == a[..]).unwrap_or(false)), Err(_) => false };
                            if !ok {
                                bad += 1;
                                let obs = match &o { Ok(out) => if out[0] { "panic".to_string() } else { format!("{}", from_bits(&out[PANIC_BITS..], is_signed(to))) }, Err(m) => m.clone() };
                                report(&mut w, format!("cast:{from}:{to}"), json!({"src": src, "x": x as i64}), from_bits(&exp, is_signed(to)) as i64, obs);
                            }
                        }
                    }
                    Err(m) => { bad += 1; report(&mut w, format!("cast:{from}:{to}:compile"), json!({"src": src}), 0, m); }
                }
            }
            k => panic!("row kind {k}"),
        }
    }
    // binary operators: three operand forms over the complete tables
    let mut keys: Vec<_> = tables.keys().cloned().collect();
    keys.sort();
    let boundary: Vec<i128> = vec![-128, -127, -64, -2, -1, 0, 1, 2, 3, 7, 8, 63, 64, 100, 126, 127, 128, 200, 254, 255];
    for (op, ty) in keys {
        let t = &tables[&(op.clone(), ty.clone())];
        if t.iter().any(|r| r.is_none()) { continue; } // partial table (replay of a single row)
        let signed = is_signed(&ty);
        let min: i128 = if signed { -128 } else { 0 };
        let bty = if is_shift(&op) { "u8" } else { ty.as_str() };
        let bmin: i128 = if is_signed(bty) { -128 } else { 0 };
        let rty = if is_cmp(&op) { "bool" } else { ty.as_str() };
        let rsigned = is_signed(rty);
        let sym = op_sym(&op);
        // var op var
        let src = format!("pub fn main(x: {ty}, y: {bty}) -> {rty} {{ x {sym} y }}");
        match compile_or(&src) {
            Ok(p) => {
                for ai in 0..256usize { for bi in 0..256usize {
                    let (a, b) = (min + ai as i128, bmin + bi as i128);
                    let e = t[ai].as_ref().unwrap()[bi];
                    n_evals += 1;
                    let o = observe(&p, &[to_bits(a, 8), to_bits(b, 8)], rsigned);
                    if o.as_ref().map(|o| !agrees(e, *o)).unwrap_or(true) {
                        bad += 1;
                        report(&mut w, format!("bin:{op}:{ty}:vv"), json!({"src": src, "x": a as i64, "y": b as i64}), e, format!("{o:?}"));
                    }
                }}
            }
            Err(m) => { bad += 1; report(&mut w, format!("bin:{op}:{ty}:vv:compile"), json!({"src": src}), 0, m); }
        }
        // const op var  and  var op const
        for form in ["cv", "vc"] {
            let cty = if form == "cv" { ty.as_str() } else { bty };
            let cmin: i128 = if is_signed(cty) { -128 } else { 0 };
            let consts: Vec<i128> = if all_consts { (0..256).map(|i| cmin + i).collect() } else { boundary.iter().copied().filter(|c| *c >= cmin && *c < cmin + 256).collect() };
            for c in consts {
                let src = if form == "cv" { format!("pub fn main(y: {bty}) -> {rty} {{ {} {sym} y }}", lit(c, cty)) } else { format!("pub fn main(x: {ty}) -> {rty} {{ x {sym} {} }}", lit(c, cty)) };
                match compile_or(&src) {
                    Ok(p) => {
                        for vi in 0..256usize {
                            let (a, b, ai, bi) = if form == "cv" { (c, bmin + vi as i128, (c - min) as usize, vi) } else { (min + vi as i128, c, vi, (c - bmin) as usize) };
                            let e = t[ai].as_ref().unwrap()[bi];
                            n_evals += 1;
                            let o = observe(&p, &[to_bits(if form == "cv" { b } else { a }, 8)], rsigned);
                            if o.as_ref().map(|o| !agrees(e, *o)).unwrap_or(true) {
                                bad += 1;
                                report(&mut w, format!("bin:{op}:{ty}:{form}"), json!({"src": src, "x": a as i64, "y": b as i64}), e, format!("{o:?}"));
                            }
                        }
                    }
                    Err(m) => { bad += 1; report(&mut w, format!("bin:{op}:{ty}:{form}:compile"), json!({"src": src}), 0, m); }
                }
            }
        }
    }
    emit(&mut w, &json!({"summary": true, "rows": n_rows, "evals": n_evals, "bad": bad}));
}

fn pool(ty: &str, rng: &mut Rng, nrand: usize, full: bool) -> Vec<i128> {
    let n = bits_of(ty) as u32;
    let (min, max): (i128, i128) = if is_signed(ty) { (-(1i128 << (n - 1)), (1i128 << (n - 1)) - 1) } else { (0, (1i128 << n) - 1) };
    let mut v: Vec<i128> = vec![0, 1, 2, 3, max, max - 1, min, min + 1, max / 2, max / 2 + 1];
    if is_signed(ty) { v.extend([-1, -2, -3, min / 2, min / 2 - 1]); }
    let ks: Vec<u32> = if full { (1..n).collect() } else { vec![n / 2 - 1, n / 2, n - 2, n - 1] };
    for k in ks {
        let p = 1i128 << k;
        for c in [p - 1, p, p + 1, -p, -p - 1, -p + 1] { if c >= min && c <= max { v.push(c); } }
    }
    for _ in 0..nrand {
        let r = (rng.next() as i128) | ((rng.next() as i128) << 64);
        let span = (max - min + 1) as i128;
        v.push(min + r.rem_euclid(span));
        // small magnitudes too
        let small = (rng.next() % 1000) as i128;
        if small <= max { v.push(small); }
        if -small >= min { v.push(-small); }
    }
    v.sort(); v.dedup();
    v
}

fn bj(b: &[bool]) -> Value { Value::Array(b.iter().map(|x| json!(*x as u8)).collect()) }

/// returns (panic code, out bits)
fn run_bits(p: &GarbleProgram, inputs: &[Vec<bool>]) -> Result<(u8, Vec<bool>), String> {
    let c = p.circuit.clone();
    let inp = inputs.to_vec();
    let out = guarded(move || c.eval(&inp))?;
    if out[0] {
        let reason = from_bits(&out[1..33], false) as u8;
        Ok((reason, vec![]))
    } else { Ok((0, out[PANIC_BITS..].to_vec())) }
}

/// intops-record <out.ndjson> <scale>: wide-type operator events
pub fn cmd_record(args: &[String]) {
    quiet_panics();
    let mut rng = Rng::new(seed_from_env() ^ 0xC03);
    let mut w = writer(&args[0]);
    let scale: usize = args[1].parse().unwrap();
    let full = scale >= 200;
    let types = ["u16", "i16", "u32", "i32", "u64", "i64", "usize"];
    let binops = ["add", "sub", "mul", "and", "or", "xor", "shl", "shr", "lt", "gt", "le", "ge", "eq", "ne"];
    for ty in types {
        let n = bits_of(ty);
        let vals = pool(ty, &mut rng, scale / 10 + 2, full);
        // pairs: boundary pool x boundary pool, thinned to about `scale` * 8 pairs
        let mut pairs: Vec<(i128, i128)> = vec![];
        for a in &vals { for b in &vals { pairs.push((*a, *b)); } }
        let want = scale * 8;
        if pairs.len() > want { let mut sel = vec![]; for _ in 0..want { sel.push(pairs[rng.below(pairs.len())]); } pairs = sel; }
        let shifts: Vec<i128> = vec![0, 1, 2, (n / 2) as i128, (n - 1) as i128, n as i128, (n + 1) as i128, 64, 128, 255, rng.below(256) as i128];
        let consts: Vec<i128> = { let mut c: Vec<i128> = vec![1, 2, 3, 5, vals[vals.len() - 1], vals[0]]; if is_signed(ty) { c.extend([-1, -2, -3]); } c.push(vals[rng.below(vals.len())]); c.sort(); c.dedup(); c };
        for op in binops {
            let bty = if is_shift(op) { "u8" } else { ty };
            let rty = if is_cmp(op) { "bool" } else { ty };
            let sym = op_sym(op);
            let bn = bits_of(bty);
            let src = format!("pub fn main(x: {ty}, y: {bty}) -> {rty} {{ x {sym} y }}");
            let prs: Vec<(i128, i128)> = if is_shift(op) { let mut v = vec![]; for a in vals.iter().take(1 + scale / 2) { for s in &shifts { v.push((*a, *s)); } } v } else { pairs.clone() };
            match compile_or(&src) {
                Ok(p) => for (a, b) in &prs {
                    let (ab, bb) = (to_bits(*a, n), to_bits(*b, bn));
                    match run_bits(&p, &[ab.clone(), bb.clone()]) {
                        Ok((pc, out)) => emit(&mut w, &json!({"op":op,"ty":ty,"form":"vv","src":src,"a":bj(&ab),"b":bj(&bb),"panic":pc,"out":bj(&out)})),
                        Err(m) => emit(&mut w, &json!({"op":op,"ty":ty,"form":"vv","src":src,"a":bj(&ab),"b":bj(&bb),"panic":99,"out":[],"crash":m})),
                    }
                },
                Err(m) => emit(&mut w, &json!({"op":op,"ty":ty,"form":"vv","src":src,"a":[],"b":[],"panic":98,"out":[],"crash":m})),
            }
            // constant forms
            let cs: Vec<i128> = if is_shift(op) { vec![0, 1, (n - 1) as i128, n as i128, 200] } else { consts.clone() };
            for c in cs.iter().take(if full { 100 } else { 5 }) {
                for form in ["cv", "vc"] {
                    if is_shift(op) && form == "cv" { // constant left operand of a shift: value of ty
                        continue;
                    }
                    let src = if form == "cv" { format!("pub fn main(y: {bty}) -> {rty} {{ {} {sym} y }}", lit(*c, ty)) } else { format!("pub fn main(x: {ty}) -> {rty} {{ x {sym} {} }}", lit(*c, bty)) };
                    match compile_or(&src) {
                        Ok(p) => for v in vals.iter().take(12 + scale / 4) {
                            let (a, b) = if form == "cv" { (*c, *v) } else { (*v, *c) };
                            let (ab, bb) = (to_bits(a, n), to_bits(b, bn));
                            let inp = if form == "cv" { bb.clone() } else { ab.clone() };
                            match run_bits(&p, &[inp]) {
                                Ok((pc, out)) => emit(&mut w, &json!({"op":op,"ty":ty,"form":form,"src":src,"a":bj(&ab),"b":bj(&bb),"panic":pc,"out":bj(&out)})),
                                Err(m) => emit(&mut w, &json!({"op":op,"ty":ty,"form":form,"src":src,"a":bj(&ab),"b":bj(&bb),"panic":99,"out":[],"crash":m})),
                            }
                        },
                        Err(m) => emit(&mut w, &json!({"op":op,"ty":ty,"form":form,"src":src,"a":[],"b":[],"panic":98,"out":[],"crash":m})),
                    }
                }
            }
        }
        // division and remainder judged together
        let srcq = format!("pub fn main(x: {ty}, y: {ty}) -> {ty} {{ x / y }}");
        let srcr = format!("pub fn main(x: {ty}, y: {ty}) -> {ty} {{ x % y }}");
        if let (Ok(pq), Ok(pr)) = (compile_or(&srcq), compile_or(&srcr)) {
            let mut prs = pairs.clone();
            prs.truncate(scale * 4);
            for a in vals.iter().take(10) { prs.push((*a, 0)); prs.push((*a, 1)); if is_signed(ty) { prs.push((*a, -1)); } }
            for (a, b) in &prs {
                let (ab, bb) = (to_bits(*a, n), to_bits(*b, n));
                let q = run_bits(&pq, &[ab.clone(), bb.clone()]);
                let r = run_bits(&pr, &[ab.clone(), bb.clone()]);
                if let (Ok((p1, o1)), Ok((p2, o2))) = (q, r) {
                    emit(&mut w, &json!({"op":"divmod","ty":ty,"form":"vv","src":srcq,"a":bj(&ab),"b":bj(&bb),"panic":p1,"out":bj(&o1),"panic2":p2,"out2":bj(&o2)}));
                } else {
                    emit(&mut w, &json!({"op":"divmod","ty":ty,"form":"vv","src":srcq,"a":bj(&ab),"b":bj(&bb),"panic":99,"out":[],"panic2":99,"out2":[]}));
                }
            }
        }
        // unary
        for op in ["neg", "not"] {
            if op == "neg" && !is_signed(ty) { continue; }
            let src = format!("pub fn main(x: {ty}) -> {ty} {{ {}x }}", op_sym(op));
            if let Ok(p) = compile_or(&src) {
                for a in &vals {
                    let ab = to_bits(*a, n);
                    if let Ok((pc, out)) = run_bits(&p, &[ab.clone()]) {
                        emit(&mut w, &json!({"op":op,"ty":ty,"form":"v","src":src,"a":bj(&ab),"b":[],"panic":pc,"out":bj(&out)}));
                    }
                }
            }
        }
        // casts from this wide type to every type
        for to in ["bool", "u8", "i8", "u16", "i16", "u32", "i32", "u64", "i64", "usize"] {
            let src = format!("pub fn main(x: {ty}) -> {to} {{ x as {to} }}");
            match compile_or(&src) {
                Ok(p) => for a in &vals {
                    let ab = to_bits(*a, n);
                    match run_bits(&p, &[ab.clone()]) {
                        Ok((pc, out)) => emit(&mut w, &json!({"op":"cast","ty":ty,"to":to,"form":"v","src":src,"a":bj(&ab),"b":[],"panic":pc,"out":bj(&out)})),
                        Err(m) => emit(&mut w, &json!({"op":"cast","ty":ty,"to":to,"form":"v","src":src,"a":bj(&ab),"b":[],"panic":99,"out":[],"crash":m})),
                    }
                },
                Err(m) => emit(&mut w, &json!({"op":"cast","ty":ty,"to":to,"form":"v","src":src,"a":[],"b":[],"panic":98,"out":[],"crash":m})),
            }
        }
    }
}
