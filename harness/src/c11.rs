//! C11: real Bristol export / import on SSA circuits; importer totality on perturbed files.
use crate::circ::*;
use crate::util::*;
use garble_lang::circuit::Circuit;
use serde_json::{json, Value};

fn tmp_path(tag: &str) -> std::path::PathBuf {
    let dir = std::env::var("VERIF_TMP").unwrap_or_else(|_| "/verif/work".into());
    std::path::PathBuf::from(dir).join(format!("bristol_{}_{}.txt", std::process::id(), tag))
}

/// parses the text the exporter wrote into the JSON shape of BristolIO.tla (no interpretation)
fn parse_file(text: &str) -> Option<Value> {
    let mut lines = text.lines();
    let l1: Vec<u64> = lines.next()?.split_whitespace().map(|x| x.parse().ok()).collect::<Option<_>>()?;
    let l2: Vec<u64> = lines.next()?.split_whitespace().map(|x| x.parse().ok()).collect::<Option<_>>()?;
    let l3: Vec<u64> = lines.next()?.split_whitespace().map(|x| x.parse().ok()).collect::<Option<_>>()?;
    if l1.len() != 2 || l2.is_empty() || l3.is_empty() || l2[0] as usize != l2.len() - 1 || l3[0] as usize != l3.len() - 1 { return None; }
    let mut gates = vec![];
    for ln in lines {
        let p: Vec<&str> = ln.split_whitespace().collect();
        if p.is_empty() { continue; }
        let nin: usize = p[0].parse().ok()?;
        let nout: usize = p[1].parse().ok()?;
        if nout != 1 || p.len() != nin + 4 { return None; }
        let ins: Vec<u64> = p[2..2 + nin].iter().map(|x| x.parse().ok()).collect::<Option<_>>()?;
        let out: u64 = p[2 + nin].parse().ok()?;
        gates.push(json!({"ins": ins, "out": out, "op": p[3 + nin]}));
    }
    Some(json!({"ngates": l1[0], "nwires": l1[1], "inputs": l2[1..].to_vec(), "outputs": l3[1..].to_vec(), "gates": gates}))
}

fn with_panic_outputs(c: &Circuit) -> Circuit {
    let mut c2 = c.clone();
    let w = c.output_gates.first().copied().unwrap_or(0);
    let mut outs = vec![w; 161];
    outs.extend(c.output_gates.iter());
    c2.output_gates = outs;
    c2
}

fn import(path: &std::path::Path) -> Value {
    let p = path.to_path_buf();
    match guarded(move || Circuit::bristol_to_garble(&p)) {
        Ok(Ok(c)) => json!({"status":"ok","ssa":ssa_to_json(&c)}),
        Ok(Err(e)) => json!({"status":"err","err":format!("{e:?}").chars().take(120).collect::<String>()}),
        Err(m) => json!({"status":"panic","msg":m}),
    }
}

fn export_event(ssa_json: &Value, exportable: bool, model: Option<&Value>, tag: &str) -> Value {
    let c = with_panic_outputs(&ssa_from_json(ssa_json));
    let path = tmp_path(tag);
    let p2 = path.clone();
    let r = guarded(move || c.format_as_bristol(&p2));
    let ev = match r {
        Ok(Ok(())) => {
            let text = std::fs::read_to_string(&path).unwrap_or_default();
            let file = parse_file(&text);
            let drift = match (model, &file) { (Some(m), Some(f)) => m != f, _ => false };
            let re = import(&path);
            json!({"ev":"Export","ssa":ssa_json,"exportable":exportable,"result": if file.is_some() { "ok" } else { "unparsable" },"file":file.unwrap_or(json!({"ngates":0,"nwires":0,"inputs":[],"outputs":[],"gates":[]})),"text":text,"reimport":re,"drift":drift})
        }
        Ok(Err(e)) => json!({"ev":"Export","ssa":ssa_json,"exportable":exportable,"result": if format!("{e:?}").contains("OutputWireIsInput") { "err-output-is-input" } else { "err-other" },"file":{"ngates":0,"nwires":0,"inputs":[],"outputs":[],"gates":[]},"reimport":{"status":"none"},"drift":false}),
        Err(m) => json!({"ev":"Export","ssa":ssa_json,"exportable":exportable,"result":"panic","msg":m,"file":{"ngates":0,"nwires":0,"inputs":[],"outputs":[],"gates":[]},"reimport":{"status":"none"},"drift":false}),
    };
    let _ = std::fs::remove_file(&path);
    ev
}

/// bristol-roundtrip <cases.ndjson> <events.ndjson>: cases {ssa, exportable, model}
pub fn cmd_roundtrip(args: &[String]) {
    quiet_panics();
    let mut w = writer(&args[1]);
    for line in read_lines(&args[0]) {
        let c: Value = serde_json::from_str(&line).unwrap();
        emit(&mut w, &export_event(&c["ssa"], c["exportable"].as_bool().unwrap(), c.get("model"), "rt"));
    }
}

/// bristol-corpus <corpus dir> <events.ndjson> <max programs>: exports of compiled programs
pub fn cmd_corpus(args: &[String]) {
    quiet_panics();
    let mut w = writer(&args[1]);
    let maxn: usize = args[2].parse().unwrap();
    let mut n = 0;
    for (f, src) in crate::corpus::good_programs(&args[0]) {
        if n >= maxn { break; }
        let Ok(Ok(p)) = guarded(|| garble_lang::compile(&src)) else { continue };
        let c = p.circuit.unwrap_ssa_ref().clone();
        let nin: usize = c.input_gates.iter().sum();
        if c.gates.len() > 600 || nin > 10 { continue; }
        n += 1;
        // the event carries the circuit without its 161 panic outputs
        let mut c0 = c.clone();
        c0.output_gates = c.output_gates[161..].to_vec();
        let exportable = c0.output_gates.iter().all(|w| *w >= nin);
        let mut ev = export_event(&ssa_to_json(&c0), exportable, None, "corpus");
        ev["file_name"] = json!(f);
        emit(&mut w, &ev);
    }
}

fn apply_edit(lines: &[Vec<String>], e: &Value) -> String {
    let mut ls: Vec<Vec<String>> = lines.to_vec();
    let ln = e["line"].as_u64().unwrap() as usize;
    let fd = e["field"].as_u64().unwrap() as usize;
    let mut tok = e["tok"].as_str().unwrap().to_string();
    if let Some(rel) = tok.strip_prefix('@') {
        // relative token: W = declared wire count, G = declared gate count of the base file's header
        let hdr = |i: usize| lines.first().and_then(|l| l.get(i)).and_then(|s| s.parse::<i64>().ok()).unwrap_or(0);
        let (base, off) = (if rel.starts_with('W') { hdr(1) } else { hdr(0) }, rel[1..].parse::<i64>().unwrap_or(0));
        tok = (base + off).to_string();
    }
    match e["k"].as_str().unwrap() {
        "subst" => { if ln >= 1 && ln <= ls.len() && fd >= 1 && fd <= ls[ln - 1].len() { ls[ln - 1][fd - 1] = tok; } }
        "insert" => { if ln >= 1 && ln <= ls.len() { let p = (fd - 1).min(ls[ln - 1].len()); ls[ln - 1].insert(p, tok); } }
        "dropfield" => { if ln >= 1 && ln <= ls.len() && fd >= 1 && fd <= ls[ln - 1].len() { ls[ln - 1].remove(fd - 1); } }
        "dropline" => { if ln >= 1 && ln <= ls.len() { ls.remove(ln - 1); } }
        "dupline" => { if ln >= 1 && ln <= ls.len() { let l = ls[ln - 1].clone(); ls.insert(ln - 1, l); } }
        "swaplines" => { if ln >= 1 && ln < ls.len() { ls.swap(ln - 1, ln); } }
        "truncate" => { ls.truncate(ln); }
        _ => {}
    }
    ls.iter().map(|l| l.join(" ")).collect::<Vec<_>>().join("\n") + "\n"
}

/// bristol-mutate <edits.ndjson> <results.ndjson>: every edit applied to each base export
pub fn cmd_mutate(args: &[String]) {
    quiet_panics();
    let mut w = writer(&args[1]);
    // base files: exports of three small programs
    let bases = ["pub fn main(x: u8, y: u8) -> u8 { x & y }", "pub fn main(a: bool, b: bool) -> (bool, bool, bool) { (a ^ b, a ^ b, a & b) }", "pub fn main(x: u8) -> bool { x == 3u8 }"];
    let mut files: Vec<Vec<Vec<String>>> = vec![];
    for (i, src) in bases.iter().enumerate() {
        let p = garble_lang::compile(src).unwrap();
        let path = tmp_path(&format!("base{i}"));
        p.circuit.unwrap_ssa_ref().format_as_bristol(&path).unwrap();
        let text = std::fs::read_to_string(&path).unwrap();
        let _ = std::fs::remove_file(&path);
        files.push(text.lines().filter(|l| !l.trim().is_empty()).map(|l| l.split_whitespace().map(|s| s.to_string()).collect()).collect());
    }
    let (mut n, mut bad) = (0u64, 0u64);
    let path = tmp_path("mut");
    for line in read_lines(&args[0]) {
        let e: Value = serde_json::from_str(&line).unwrap();
        for (bi, base) in files.iter().enumerate() {
            let text = apply_edit(base, &e);
            std::fs::write(&path, &text).unwrap();
            n += 1;
            let r = import(&path);
            let mut failed = r["status"] == "panic";
            // an accepted file must yield a circuit that is valid and can be evaluated
            if r["status"] == "ok" {
                let c = ssa_from_json(&r["ssa"]);
                if let Ok(Ok(())) = guarded(|| c.validate()) {
                    let inp: Vec<Vec<bool>> = c.input_gates.iter().map(|k| vec![false; *k]).collect();
                    if guarded(|| c.eval(&inp)).is_err() { failed = true; }
                }
            }
            if failed { bad += 1; emit(&mut w, &json!({"bad": true, "base": bi, "edit": e, "text": text, "observed": r})); }
        }
    }
    let _ = std::fs::remove_file(&path);
    emit(&mut w, &json!({"summary": true, "n": n, "bad": bad}));
}
