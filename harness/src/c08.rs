//! C08: arm lists emitted by Gen_Arms.tla rendered to programs, checked and evaluated.
use crate::util::*;
use garble_lang::ast::{Pattern, PatternEnum, Type};
use garble_lang::check::TypeErrorEnum;
use garble_lang::{CompileTimeError, Error};
use serde_json::{json, Value};

const DEFS: &str = "enum E3 { A, B(u8), C(bool) }\nstruct S { a: u8, b: bool }\n";

fn bits(t: &str) -> u32 { match t { "u8" | "i8" => 8, "u16" | "i16" => 16, "u32" | "i32" | "usize" => 32, _ => 64 } }
fn signed(t: &str) -> bool { t.starts_with('i') }
fn min_max(t: &str) -> (i128, i128) { let n = bits(t); if signed(t) { (-(1i128 << (n - 1)), (1i128 << (n - 1)) - 1) } else { (0, (1i128 << n) - 1) } }

/// concrete value of a point of an integer domain (the inverse of `point_of`)
fn value_of(t: &str, p: usize) -> i128 {
    let (min, max) = min_max(t);
    if bits(t) == 8 { return min + p as i128 - 1; }
    if signed(t) {
        match p { 1..=3 => min + p as i128 - 1, 4 => min / 2, 5..=9 => p as i128 - 7, 10 => max / 2, _ => max - (13 - p as i128) }
    } else {
        match p { 1..=4 => p as i128 - 1, 5 => max / 2, _ => max - (9 - p as i128) }
    }
}
fn point_of(t: &str, v: i128) -> usize {
    let (min, max) = min_max(t);
    if bits(t) == 8 { return (v - min + 1) as usize; }
    if signed(t) {
        if v - min <= 2 { (v - min + 1) as usize } else if v < -2 { 4 } else if v <= 2 { (v + 7) as usize } else if max - v <= 2 { (13 - (max - v)) as usize } else { 10 }
    } else if v <= 3 { (v + 1) as usize } else if max - v <= 3 { (9 - (max - v)) as usize } else { 5 }
}

fn ty_src(t: &Value) -> String {
    match t["k"].as_str().unwrap() {
        "bool" => "bool".into(),
        "int" => t["t"].as_str().unwrap().into(),
        "tup" => format!("({})", t["fs"].as_array().unwrap().iter().map(ty_src).collect::<Vec<_>>().join(", ")),
        _ => t["name"].as_str().unwrap().into(),
    }
}

thread_local! { static NOSUFFIX: std::cell::Cell<bool> = std::cell::Cell::new(false); }
/// literal of a point; for signed types non-negative numbers are written without a suffix in
/// every second case (the language allows plain literals in patterns on signed scrutinees)
fn num_src(ty: &str, v: i128) -> String {
    if signed(ty) && v >= 0 && NOSUFFIX.with(|c| c.get()) { format!("{v}") } else { format!("{v}{ty}") }
}

fn pat_src(t: &Value, p: &Value, binds: &mut usize) -> String {
    match p["k"].as_str().unwrap() {
        "wild" => "_".into(),
        "bind" => { *binds += 1; format!("n{}", *binds) }
        "true" => "true".into(),
        "false" => "false".into(),
        "lit" => { let ty = t["t"].as_str().unwrap(); num_src(ty, value_of(ty, p["i"].as_u64().unwrap() as usize)) }
        k @ ("incl" | "excl") => {
            let ty = t["t"].as_str().unwrap();
            let (a, b) = (value_of(ty, p["i"].as_u64().unwrap() as usize), value_of(ty, p["j"].as_u64().unwrap() as usize));
            // both bounds of a range carry the same kind of suffix
            if signed(ty) && a >= 0 && b >= 0 { format!("{}{}{}", num_src(ty, a), if k == "incl" { "..=" } else { ".." }, num_src(ty, b)) }
            else { format!("{a}{ty}{}{b}{ty}", if k == "incl" { "..=" } else { ".." }) }
        }
        "tup" => format!("({})", p["ps"].as_array().unwrap().iter().enumerate().map(|(i, q)| pat_src(&t["fs"][i], q, binds)).collect::<Vec<_>>().join(", ")),
        "enum" => {
            let v = &t["vs"][p["v"].as_u64().unwrap() as usize - 1];
            let ps = p["ps"].as_array().unwrap();
            if ps.is_empty() { format!("{}::{}", t["name"].as_str().unwrap(), v["n"].as_str().unwrap()) }
            else { format!("{}::{}({})", t["name"].as_str().unwrap(), v["n"].as_str().unwrap(), ps.iter().enumerate().map(|(j, q)| pat_src(&v["fs"][j], q, binds)).collect::<Vec<_>>().join(", ")) }
        }
        "struct" => {
            let mut fs: Vec<String> = p["fs"].as_array().unwrap().iter().map(|f| { let fd = &t["fs"][f["f"].as_u64().unwrap() as usize - 1]; format!("{}: {}", fd["n"].as_str().unwrap(), pat_src(&fd["t"], &f["p"], binds)) }).collect();
            if p["rest"].as_bool().unwrap() { fs.push("..".into()); }
            format!("{} {{ {} }}", t["name"].as_str().unwrap(), fs.join(", "))
        }
        k => panic!("pattern kind {k}"),
    }
}

/// bits of a value of the (abstract) type
fn value_bits(t: &Value, v: &Value, out: &mut Vec<bool>) {
    match t["k"].as_str().unwrap() {
        "bool" => out.push(v.as_u64().unwrap() == 2),
        "int" => { let ty = t["t"].as_str().unwrap(); let x = value_of(ty, v.as_u64().unwrap() as usize); let n = bits(ty) as usize; for i in 0..n { out.push((x >> (n - 1 - i)) & 1 == 1); } }
        "tup" => for (i, x) in v.as_array().unwrap().iter().enumerate() { value_bits(&t["fs"][i], x, out); },
        "struct" => for (i, x) in v.as_array().unwrap().iter().enumerate() { value_bits(&t["fs"][i]["t"], x, out); },
        "enum" => {
            // E3: three variants -> 2 tag bits, payload padded to the largest variant (8 bits)
            let tag = v["tag"].as_u64().unwrap() as usize - 1;
            out.push(tag & 2 == 2); out.push(tag & 1 == 1);
            let start = out.len();
            for (j, x) in v["f"].as_array().unwrap().iter().enumerate() { value_bits(&t["vs"][tag]["fs"][j], x, out); }
            while out.len() < start + 8 { out.push(false); }
        }
        k => panic!("type kind {k}"),
    }
}

fn witness_to_abstract(t: &Value, p: &Pattern<Type>) -> Value {
    let Pattern(pe, _, _) = p;
    match pe {
        PatternEnum::Identifier(_) => json!({"k":"wild"}),
        PatternEnum::True => json!({"k":"true"}),
        PatternEnum::False => json!({"k":"false"}),
        PatternEnum::NumUnsigned(n, _) => json!({"k":"lit","i":point_of(t["t"].as_str().unwrap_or("u8"), *n as i128)}),
        PatternEnum::NumSigned(n, _) => json!({"k":"lit","i":point_of(t["t"].as_str().unwrap_or("i8"), *n as i128)}),
        PatternEnum::UnsignedInclusiveRange(a, b, _) => json!({"k":"incl","i":point_of(t["t"].as_str().unwrap_or("u8"), *a as i128),"j":point_of(t["t"].as_str().unwrap_or("u8"), *b as i128)}),
        PatternEnum::SignedInclusiveRange(a, b, _) => json!({"k":"incl","i":point_of(t["t"].as_str().unwrap_or("i8"), *a as i128),"j":point_of(t["t"].as_str().unwrap_or("i8"), *b as i128)}),
        PatternEnum::Tuple(ps) => json!({"k":"tup","ps":ps.iter().enumerate().map(|(i, q)| witness_to_abstract(&t["fs"][i], q)).collect::<Vec<_>>()}),
        PatternEnum::EnumUnit(_, vn) | PatternEnum::EnumTuple(_, vn, _) => {
            let vs = t["vs"].as_array().unwrap();
            let vi = vs.iter().position(|v| v["n"] == vn.as_str()).unwrap_or(0);
            let ps: Vec<Value> = if let PatternEnum::EnumTuple(_, _, ps) = pe { ps.iter().enumerate().map(|(j, q)| witness_to_abstract(&vs[vi]["fs"][j], q)).collect() } else { vec![] };
            json!({"k":"enum","v":vi + 1,"ps":ps})
        }
        PatternEnum::Struct(_, fs) | PatternEnum::StructIgnoreRemaining(_, fs) => {
            let defs = t["fs"].as_array().unwrap();
            let v: Vec<Value> = fs.iter().map(|(n, q)| { let fi = defs.iter().position(|d| d["n"] == n.as_str()).unwrap_or(0); json!({"f":fi + 1,"p":witness_to_abstract(&defs[fi]["t"], q)}) }).collect();
            json!({"k":"struct","fs":v,"rest":matches!(pe, PatternEnum::StructIgnoreRemaining(_, _))})
        }
    }
}

/// arms-replay <cases.ndjson> <results.ndjson> <witness_events.ndjson>
pub fn cmd_replay(args: &[String]) {
    quiet_panics();
    let mut w = writer(&args[1]);
    let mut ww = writer(&args[2]);
    let (mut n, mut nevals, mut bad, mut nexh) = (0u64, 0u64, 0u64, 0u64);
    for line in read_lines(&args[0]) {
        let c: Value = serde_json::from_str(&line).unwrap();
        n += 1;
        NOSUFFIX.with(|f| f.set(n % 2 == 1));
        let t = &c["ty"];
        let arms = c["arms"].as_array().unwrap();
        let is_int = t["k"] == "int";
        let mut arm_srcs = vec![];
        for (i, p) in arms.iter().enumerate() {
            let mut binds = 0;
            let ps = pat_src(t, p, &mut binds);
            let body = if is_int && p["k"] == "bind" { format!("if n1 == x {{ {}u8 }} else {{ 200u8 }}", i + 1) } else { format!("{}u8", i + 1) };
            arm_srcs.push(format!("{ps} => {body}"));
        }
        let src = format!("{DEFS}pub fn main(x: {}) -> u8 {{\n    match x {{ {} }}\n}}\n", ty_src(t), arm_srcs.join(", "));
        let exhaustive = c["exhaustive"].as_bool().unwrap();
        if exhaustive { nexh += 1; }
        let mut report = |what: &str, observed: String, w: &mut std::io::BufWriter<std::fs::File>| {
            emit(w, &json!({"bad": true, "what": what, "ty": ty_src(t), "arms": arm_srcs, "src": src, "expected_exhaustive": exhaustive, "observed": observed, "case": {"ty": c["ty"], "arms": c["arms"], "exhaustive": c["exhaustive"], "vals": c["vals"], "first": c["first"]}}));
        };
        match guarded(|| garble_lang::compile(&src)) {
            Err(m) => { bad += 1; report("checker-panic", m, &mut w); }
            Ok(Ok(p)) => {
                if !exhaustive { bad += 1; report("non-exhaustive-accepted", "accepted".into(), &mut w); continue; }
                // every scrutinee value: the first matching arm decides
                let first = c["first"].as_array().unwrap();
                let vals: Vec<Value> = if c["vals"].as_array().map(|a| a.is_empty()).unwrap_or(true) { (1..=first.len()).map(|i| json!(i)).collect() } else { c["vals"].as_array().unwrap().clone() };
                let mut wrong = vec![];
                for (i, v) in vals.iter().enumerate() {
                    let mut b = vec![];
                    value_bits(t, v, &mut b);
                    nevals += 1;
                    let circ = p.circuit.clone();
                    let o = guarded(move || circ.eval(&[b]));
                    let got: i64 = match &o { Ok(o) => if o[0] { -1 } else { o[161..].iter().fold(0, |a, x| (a << 1) | *x as i64) }, Err(_) => -2 };
                    if got != first[i].as_i64().unwrap() { wrong.push(json!({"value": v, "expected_arm": first[i], "observed": got})); if wrong.len() >= 5 { break; } }
                }
                if !wrong.is_empty() { bad += 1; report("wrong-arm", Value::Array(wrong).to_string(), &mut w); }
            }
            Ok(Err(e)) => {
                let mut witnesses = None;
                let mut other = None;
                if let Error::CompileTimeError(CompileTimeError::TypeError(errs)) = &e {
                    for te in errs { if let TypeErrorEnum::PatternsAreNotExhaustive(ws) = &*te.0 { witnesses = Some(ws.clone()); } else { other = Some(format!("{:?}", te.0)); } }
                } else { other = Some(e.prettify(&src)); }
                match (witnesses, other) {
                    (Some(ws), _) => {
                        if exhaustive { bad += 1; report("exhaustive-rejected", format!("rejected as non-exhaustive, missing: {}", ws.iter().map(|st| st.iter().map(|p| p.to_string()).collect::<Vec<_>>().join(" ")).collect::<Vec<_>>().join(" | ")), &mut w); }
                        else {
                            let abs: Vec<Value> = ws.iter().filter(|st| st.len() == 1).map(|st| witness_to_abstract(t, &st[0])).collect();
                            emit(&mut ww, &json!({"ev":"Witness","ty":c["ty"],"arms":c["arms"],"witnesses":abs,"text":ws.iter().map(|st| st.iter().map(|p| p.to_string()).collect::<Vec<_>>().join(" ")).collect::<Vec<_>>(),"src":src,"nstacks":ws.len()}));
                        }
                    }
                    (None, Some(m)) => { bad += 1; report("other-error", m.chars().take(300).collect(), &mut w); }
                    (None, None) => { bad += 1; report("other-error", "empty error list".into(), &mut w); }
                }
            }
        }
    }
    emit(&mut w, &json!({"summary": true, "n": n, "evals": nevals, "bad": bad, "exhaustive": nexh}));
}
