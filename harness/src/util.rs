use std::io::{BufRead, BufReader, BufWriter, Write};
use std::panic::{catch_unwind, AssertUnwindSafe};

/// splitmix64 PRNG (rand with default features does not resolve offline)
pub struct Rng(pub u64);
impl Rng {
    pub fn new(seed: u64) -> Self { Rng(seed.wrapping_mul(0x9E3779B97F4A7C15).wrapping_add(0x1234567)) }
    pub fn next(&mut self) -> u64 {
        self.0 = self.0.wrapping_add(0x9E3779B97F4A7C15);
        let mut z = self.0;
        z = (z ^ (z >> 30)).wrapping_mul(0xBF58476D1CE4E5B9);
        z = (z ^ (z >> 27)).wrapping_mul(0x94D049BB133111EB);
        z ^ (z >> 31)
    }
    pub fn below(&mut self, n: usize) -> usize { if n == 0 { 0 } else { (self.next() % n as u64) as usize } }
    pub fn chance(&mut self, num: usize, den: usize) -> bool { self.below(den) < num }
    pub fn pick<'a, T>(&mut self, xs: &'a [T]) -> &'a T { &xs[self.below(xs.len())] }
    pub fn bool(&mut self) -> bool { self.next() & 1 == 1 }
}

pub fn read_lines(path: &str) -> impl Iterator<Item = String> {
    let f = std::fs::File::open(path).unwrap_or_else(|e| panic!("cannot open {path}: {e}"));
    BufReader::with_capacity(1 << 20, f).lines().map(|l| l.unwrap()).filter(|l| !l.trim().is_empty())
}

pub fn writer(path: &str) -> BufWriter<std::fs::File> {
    BufWriter::with_capacity(1 << 20, std::fs::File::create(path).unwrap_or_else(|e| panic!("cannot create {path}: {e}")))
}

pub fn emit<W: Write>(w: &mut W, v: &serde_json::Value) {
    serde_json::to_writer(&mut *w, v).unwrap();
    w.write_all(b"\n").unwrap();
}

/// Runs f, turning a panic of the code under test into data.
pub fn guarded<T>(f: impl FnOnce() -> T) -> Result<T, String> {
    catch_unwind(AssertUnwindSafe(f)).map_err(|e| {
        if let Some(s) = e.downcast_ref::<&str>() { s.to_string() }
        else if let Some(s) = e.downcast_ref::<String>() { s.clone() }
        else { "panic".to_string() }
    })
}

pub fn quiet_panics() {
    std::panic::set_hook(Box::new(|_| {}));
}

pub fn seed_from_env() -> u64 {
    std::env::var("VERIF_SEED").ok().and_then(|s| s.parse().ok()).unwrap_or(0)
}
