//! C05: every program the checker accepts is compiled for every pub fn; the observed I/O shape,
//! validation, evaluation and decoding results are logged as `Shape` events (judged by
//! Trace_Shape5.tla against Layout.SizeOf).  Sources: generated fully annotated programs, their
//! literal-suffix-erased variants, type-preserving rewrites (converse clause, `Types` events),
//! zero-size / single-array / const-size shapes, corpus programs.
use crate::c17::{project, strip, walk_paths, get_path, set_path, P};
use crate::printer;
use crate::proj::Proj;
use crate::util::*;
use garble_lang::ast::Type;
use garble_lang::literal::Literal;
use garble_lang::token::{SignedNumType, UnsignedNumType};
use garble_lang::{CircuitKind, CompileOptions, TypedProgram};
use garble_lang::circuit_type::CircuitType;
use serde_json::{json, Value};
use std::collections::HashMap;
use std::io::Write;

fn const_literal(ty: &Type, k: u64) -> Literal {
    match ty {
        Type::Bool => if k % 2 == 1 { Literal::True } else { Literal::False },
        Type::Unsigned(t) => Literal::NumUnsigned(k, *t),
        Type::Signed(t) => Literal::NumSigned(k as i64, *t),
        _ => Literal::False,
    }
}

fn has_const_array(t: &Type) -> bool {
    match t {
        Type::ArrayConst(_, _) | Type::ArrayConstExpr(_, _) => true,
        Type::Array(e, _) => has_const_array(e),
        Type::Tuple(fs) => fs.iter().any(has_const_array),
        _ => false,
    }
}
fn has_unspecified(t: &Value) -> bool {
    match t["k"].as_str().unwrap_or("") {
        "int" => !["u8", "u16", "u32", "u64", "usize", "i8", "i16", "i32", "i64"].contains(&t["t"].as_str().unwrap_or("")),
        "arr" => has_unspecified(&t["e"]),
        "tup" => t["fs"].as_array().map(|a| a.iter().any(has_unspecified)).unwrap_or(false),
        _ => false,
    }
}
/// the typed program binds a name (let, for, match) to a value whose type still contains an integer type
/// that was never resolved (an un-suffixed literal): identifies the known finding `unspecified-binding`
pub fn unspecified_bindings(v: &Value) -> bool {
    match v {
        Value::Object(m) => {
            let hit = match m.get("k").and_then(|k| k.as_str()).unwrap_or("") {
                "let" | "letmut" | "for" => has_unspecified(&v["e"]["ty"]),
                "match" => has_unspecified(&v["e"]["ty"]),
                "forjoin" => has_unspecified(&v["a"]["ty"]) || has_unspecified(&v["b"]["ty"]),
                _ => false,
            };
            hit || m.iter().any(|(k, x)| k != "ty" && k != "m" && unspecified_bindings(x))
        }
        Value::Array(a) => a.iter().any(unspecified_bindings),
        _ => false,
    }
}

/// one Shape event per (pub fn, constant assignment) of an accepted program
pub struct Annotated<'a> { pub ast: &'a Value, pub circuit: &'a garble_lang::circuit::Circuit }

/// AST without spans, node types and literal types: the shape that suffix erasure preserves
fn shape_of(v: &Value) -> Value {
    match v {
        Value::Object(m) => { let mut o = serde_json::Map::new(); for (k, x) in m { if matches!(k.as_str(), "m" | "ty" | "cty" | "pty" | "nosfx") { continue; } o.insert(k.clone(), shape_of(x)); } Value::Object(o) }
        Value::Array(a) => Value::Array(a.iter().map(shape_of).collect()),
        x => x.clone(),
    }
}

/// AST without spans, with the types of all nodes except literals (number expressions, number patterns, ranges)
fn typed_shape_of(v: &Value) -> Value {
    match v {
        Value::Object(m) => {
            let k = m.get("k").and_then(|x| x.as_str()).unwrap_or("");
            let lit = matches!(k, "num" | "pnum" | "prange" | "range");
            let mut o = serde_json::Map::new();
            for (key, x) in m { if matches!(key.as_str(), "m" | "cty" | "pty" | "nosfx") || (lit && (key == "ty" || key == "t")) { continue; } o.insert(key.clone(), typed_shape_of(x)); }
            Value::Object(o)
        }
        Value::Array(a) => Value::Array(a.iter().map(typed_shape_of).collect()),
        x => x.clone(),
    }
}
/// the type names of all literals in traversal order
fn literal_types(v: &Value, out: &mut Vec<String>) {
    match v {
        Value::Object(m) => {
            let k = m.get("k").and_then(|x| x.as_str()).unwrap_or("");
            if matches!(k, "num" | "pnum" | "prange") { out.push(m.get("ty").map(|t| t["t"].as_str().unwrap_or("?").to_string()).unwrap_or_default()); }
            if k == "range" { out.push(m.get("t").and_then(|t| t.as_str()).unwrap_or("?").to_string()); }
            for (key, x) in m { if key != "ty" && key != "m" { literal_types(x, out); } }
        }
        Value::Array(a) => for x in a { literal_types(x, out); },
        _ => {}
    }
}

pub fn shape_events<W: Write>(w: &mut W, id: &str, family: &str, src: &str, typed: &TypedProgram, rng: &mut Rng, base: Option<&Annotated>) -> usize {
    let mut names: Vec<&String> = typed.fn_defs.iter().filter(|(_, f)| f.is_pub).map(|(n, _)| n).collect();
    names.sort();
    let has_consts = typed.const_deps.values().any(|d| !d.is_empty());
    let assignments: Vec<u64> = if has_consts { vec![0, 1, 3] } else { vec![0] };
    let mut n = 0;
    let unspec = { let cs = HashMap::new(); let mut pr = Proj::new(typed, &cs); let whole = pr.program("main"); unspecified_bindings(&whole["fns"]) };
    for fn_name in names {
        for k in &assignments {
            let mut consts: HashMap<String, HashMap<String, Literal>> = HashMap::new();
            for (party, deps) in typed.const_deps.iter() { for (c, (ty, _)) in deps { consts.entry(party.clone()).or_default().insert(c.clone(), const_literal(ty, *k)); } }
            let opts = CompileOptions { circuit_kind: CircuitKind::Ssa, ..Default::default() };
            let mut ev = json!({"ev":"Shape","id":format!("{id}:{fn_name}:{k}"),"family":family,"src":src,"fn":fn_name,"consts":k,
                "ptys":[],"ret":{"k":"bool"},"single_array":false,"prog":{"structs":{"_":[]},"enums":{"_":[]}},
                "input_gates":[],"noutputs":0,"valid_ssa":false,"valid_reg":false,"eval_ok":false,"decode_ok":false,"reg_same_shape":false,"msg":"","unspecified_binding":unspec,"agrees_with_annotated":true});
            n += 1;
            let r = guarded(|| typed.compile_with_constants(fn_name, consts.clone(), &opts).map(|(c, f, cs)| (c, f.clone(), cs)));
            let (circuit, fn_def, const_sizes) = match r {
                Err(m) => { ev["outcome"] = json!("compiler_panic"); ev["msg"] = json!(m); emit(w, &ev); continue; }
                Ok(Err(e)) => { ev["outcome"] = json!("compile_error"); ev["msg"] = json!(format!("{e:?}").chars().take(300).collect::<String>()); emit(w, &ev); continue; }
                Ok(Ok(x)) => x,
            };
            ev["outcome"] = json!("compiled");
            let mut pr = Proj::new(typed, &const_sizes);
            let whole = pr.program(fn_name);
            ev["prog"] = json!({"structs": whole["structs"], "enums": whole["enums"]});
            ev["ptys"] = Value::Array(fn_def.params.iter().map(|p| pr.ty(&p.ty)).collect());
            ev["ret"] = pr.ty(&fn_def.ty);
            ev["single_array"] = json!(fn_def.params.len() == 1 && matches!(fn_def.params[0].ty, Type::Array(_, _) | Type::ArrayConst(_, _)));
            ev["input_gates"] = json!(circuit.input_gates);
            ev["noutputs"] = json!(circuit.output_gates.len());
            ev["valid_ssa"] = json!(matches!(guarded(|| circuit.validate()), Ok(Ok(()))));
            let mut msgs: Vec<String> = vec![];
            if let Ok(Err(e)) = guarded(|| circuit.validate()) { msgs.push(format!("validate: {e:?}")); }
            // register form
            let reg = guarded(|| { let mut ct = CircuitType::Ssa(circuit.clone()); ct.to_register(); ct });
            match &reg {
                Ok(CircuitType::Register(rc)) => {
                    let v = guarded(|| rc.validate());
                    ev["valid_reg"] = json!(matches!(v, Ok(Ok(()))));
                    if !matches!(v, Ok(Ok(()))) { msgs.push(format!("register validate: {v:?}")); }
                    ev["reg_same_shape"] = json!(rc.input_regs == circuit.input_gates && rc.output_regs.len() == circuit.output_gates.len());
                }
                _ => { msgs.push("register conversion panicked".into()); }
            }
            // evaluation on the zero input and a random one; decoding by the declared return type
            let mut eval_ok = true;
            let mut decode_ok = true;
            for round in 0..2 {
                // round 0: all-zero input; round 1: a random valid value per parameter (zeros where the recorder cannot build one)
                let mut inputs: Vec<Vec<bool>> = circuit.input_gates.iter().map(|n| vec![false; *n]).collect();
                if round == 1 {
                    let mut flat: Vec<bool> = vec![];
                    let mut ok = true;
                    for p in fn_def.params.iter() {
                        let v = if has_const_array(&p.ty) { None } else { crate::evalrec::gen_value(typed, &p.ty, rng) };
                        match v {
                            Some(v) => { let lit = crate::evalrec::value_to_literal(typed, &p.ty, &v); match guarded(|| lit.as_bits(typed, &const_sizes)) { Ok(b) => flat.extend(b), Err(_) => ok = false } }
                            None => ok = false,
                        }
                    }
                    if ok && flat.len() == circuit.input_gates.iter().sum::<usize>() {
                        let mut at = 0;
                        for (i, n) in circuit.input_gates.iter().enumerate() { inputs[i] = flat[at..at + n].to_vec(); at += n; }
                    }
                }
                let c = circuit.clone();
                let inp = inputs.clone();
                match guarded(move || c.eval(&inp)) {
                    Ok(out) => {
                        if out.len() != circuit.output_gates.len() { eval_ok = false; msgs.push("eval: wrong number of output bits".into()); continue; }
                        if let Ok(CircuitType::Register(rc)) = &reg {
                            let rc2 = rc.clone(); let inp = inputs.clone();
                            match guarded(move || rc2.eval(&inp)) { Ok(o2) if o2 == out => {}, Ok(_) => { eval_ok = false; msgs.push("register eval differs".into()); }, Err(m) => { eval_ok = false; msgs.push(format!("register eval panic: {m}")); } }
                        }
                        if out.len() < 161 { decode_ok = false; msgs.push("fewer than 161 output bits".into()); continue; }
                        // the value bits mean something only when the circuit reports no panic
                        if out[0] { continue; }
                        let (tyc, cs) = (fn_def.ty.clone(), const_sizes.clone());
                        let bits = out[161..].to_vec();
                        match guarded(|| Literal::from_unwrapped_bits(typed, &tyc, &bits, &cs)) {
                            Ok(Ok(lit)) => { if !has_const_array(&tyc) && !lit.is_of_type(typed, &tyc) { decode_ok = false; msgs.push(format!("decoded literal {lit} is not of type {tyc}")); } }
                            Ok(Err(e)) => { decode_ok = false; msgs.push(format!("decode: {e:?}")); }
                            Err(m) => { decode_ok = false; msgs.push(format!("decode panic: {m}")); }
                        }
                    }
                    Err(m) => { eval_ok = false; msgs.push(format!("eval panic: {m}")); }
                }
            }
            // a suffix-erased variant whose typed AST has the shape of the annotated program (same nodes, same literal values)
            // denotes the same function: compare the circuits on the inputs used above plus a few more
            if let (Some(b), "main", false) = (base, fn_name.as_str(), unspec) {
                // demanded only if the checker typed every node other than the erased literals exactly as in the annotated
                // program and every literal either as there or not at all (otherwise the literal legitimately got another
                // type, e.g. the i32 default in the operand of a cast or in an un-annotated let mut)
                let whole = { let cs = HashMap::new(); let mut pr2 = Proj::new(typed, &cs); pr2.program("main") };
                let (mut l1, mut l2) = (vec![], vec![]);
                literal_types(&whole, &mut l1);
                literal_types(b.ast, &mut l2);
                let lits_ok = l1.len() == l2.len() && l1.iter().zip(l2.iter()).all(|(e, a)| e == a || e == "unspec");
                if typed_shape_of(&whole) == typed_shape_of(b.ast) && lits_ok && b.circuit.input_gates == circuit.input_gates && b.circuit.output_gates.len() == circuit.output_gates.len() {
                    for round in 0..4 {
                        let mut flat: Vec<bool> = vec![];
                        let mut ok = true;
                        for p in fn_def.params.iter() {
                            match crate::evalrec::gen_value(typed, &p.ty, rng) {
                                Some(v) if round > 0 => { let lit = crate::evalrec::value_to_literal(typed, &p.ty, &v); match guarded(|| lit.as_bits(typed, &const_sizes)) { Ok(bits) => flat.extend(bits), Err(_) => ok = false } }
                                _ => ok = round == 0,
                            }
                        }
                        let total: usize = circuit.input_gates.iter().sum();
                        if round == 0 { flat = vec![false; total]; }
                        if !ok || flat.len() != total { continue; }
                        let mut inputs: Vec<Vec<bool>> = vec![]; let mut at = 0;
                        for n in circuit.input_gates.iter() { inputs.push(flat[at..at + n].to_vec()); at += n; }
                        let (c1, c2, i1, i2) = (circuit.clone(), b.circuit.clone(), inputs.clone(), inputs.clone());
                        let o1 = guarded(move || c1.eval(&i1));
                        let o2 = guarded(move || c2.eval(&i2));
                        // the panic location is a span of the source text, which differs between the two spellings: compare
                        // flag and reason, and the value bits when there is no panic
                        let same = |a: &Vec<bool>, b: &Vec<bool>| a.len() == b.len() && a.len() >= 161 && a[..33] == b[..33] && (a[0] || a[161..] == b[161..]);
                        if let (Ok(o1), Ok(o2)) = (&o1, &o2) { if !same(o1, o2) { ev["agrees_with_annotated"] = json!(false); msgs.push(format!("output differs from the annotated program on input bits {}", flat.iter().map(|b| if *b { '1' } else { '0' }).collect::<String>())); break; } }
                    }
                }
            }
            ev["eval_ok"] = json!(eval_ok);
            ev["decode_ok"] = json!(decode_ok);
            ev["msg"] = json!(msgs.join("; ").chars().take(400).collect::<String>());
            emit(w, &ev);
        }
    }
    n
}

/// checks a source text and records Shape events if accepted, a Rejected event otherwise
fn run_source<W: Write>(w: &mut W, id: &str, family: &str, src: &str, rng: &mut Rng) -> bool { run_source_with(w, id, family, src, rng, None) }
fn run_source_with<W: Write>(w: &mut W, id: &str, family: &str, src: &str, rng: &mut Rng, base: Option<&Annotated>) -> bool {
    if std::env::var("VERIF_DEBUG").is_ok() { eprintln!("[shape5] {id} {family}\n{src}"); }
    match guarded(|| garble_lang::check(src)) {
        Ok(Ok(typed)) => { shape_events(w, id, family, src, &typed, rng, base); true }
        Ok(Err(e)) => { emit(w, &json!({"ev":"Rejected","id":id,"family":family,"src":src,"msg":e.prettify(src).chars().take(200).collect::<String>()})); false }
        Err(m) => { emit(w, &json!({"ev":"CheckerPanic","id":id,"family":family,"src":src,"msg":m})); false }
    }
}

fn num_sites(prog: &Value) -> Vec<Vec<P>> {
    let mut paths = vec![];
    walk_paths(prog, &mut vec![], &mut paths);
    paths.into_iter().filter(|p| matches!(get_path(prog, p)["k"].as_str().unwrap_or(""), "num" | "pnum" | "range" | "prange")).collect()
}

/// type-preserving rewrites of one expression site
fn preserving(prog: &Value, rng: &mut Rng, max: usize) -> Vec<(String, Value)> {
    let mut paths = vec![];
    walk_paths(prog, &mut vec![], &mut paths);
    let expr_kinds = ["num", "true", "false", "var", "bin", "un", "if", "match", "call", "cast", "idx", "tupacc", "sacc", "tuplit", "arrlit", "arrrep", "slit", "elit", "block"];
    let sites: Vec<Vec<P>> = paths.into_iter().filter(|p| {
        let n = get_path(prog, p);
        // expression nodes only (not statements, patterns, the iterated expression of a for loop or accessor indices)
        expr_kinds.contains(&n["k"].as_str().unwrap_or("")) && n.get("ty").is_some() && !matches!(p.last(), Some(P::K(k)) if k == "a" || k == "b") && !p.iter().any(|x| matches!(x, P::K(k) if k == "acc" || k == "consts"))
    }).collect();
    let mut out = vec![];
    // statement lists (blocks, loop bodies): a value that is computed and discarded (`1u8;`) before the first statement changes nothing
    {
        let mut all = vec![];
        walk_paths(prog, &mut vec![], &mut all);
        let lists: Vec<Vec<P>> = all.into_iter().filter_map(|p| {
            let n = get_path(prog, &p);
            let key = match n["k"].as_str().unwrap_or("") { "block" => "ss", "for" | "forjoin" => "body", _ => return None };
            if n[key].as_array().map(|a| a.is_empty()).unwrap_or(true) { return None; }
            let mut q = p.clone(); q.push(P::K(key.to_string())); Some(q)
        }).collect();
        for _ in 0..(max / 4).max(1) {
            if lists.is_empty() { break; }
            let lp = &lists[rng.below(lists.len())];
            let z = json!([0, 0, 0, 0]);
            let mut ss = get_path(prog, lp).as_array().cloned().unwrap_or_default();
            ss.insert(0, json!({"k":"expr","e":{"k":"num","v":1,"ty":{"k":"int","t":"u8"},"m":z},"m":z}));
            let mut mprog = prog.clone();
            set_path(&mut mprog, lp, Value::Array(ss));
            out.push(("keep-discarded-value".to_string(), mprog));
        }
    }
    if sites.is_empty() { return out; }
    for _ in 0..max {
        let path = &sites[rng.below(sites.len())];
        let n = get_path(prog, path).clone();
        let t = n["ty"].clone();
        let m = n["m"].clone();
        let tru = json!({"k":"true","ty":{"k":"bool"},"m":m});
        let unit = || json!({"k":"tuplit","es":[],"ty":{"k":"tup","fs":[]},"m":m});
        let (rule, new) = match rng.below(8) {
            0 => ("keep-block", json!({"k":"block","ss":[{"k":"expr","e":n,"m":m}],"ty":t,"m":m})),
            1 => ("keep-if-true", json!({"k":"if","c":tru,"t":n,"f":n,"ty":t,"m":m})),
            2 => ("keep-let", json!({"k":"block","ss":[{"k":"let","p":{"k":"pid","n":"zz_t","ty":t,"m":m},"e":n,"m":m},{"k":"expr","e":{"k":"var","n":"zz_t","ty":t,"m":m},"m":m}],"ty":t,"m":m})),
            3 => ("keep-tuple-access", json!({"k":"tupacc","e":{"k":"tuplit","es":[n, tru],"ty":{"k":"tup","fs":[t, {"k":"bool"}]},"m":m},"i":0,"ty":t,"m":m})),
            4 => ("keep-array-index", json!({"k":"idx","a":{"k":"arrrep","e":n,"n":2,"ty":{"k":"arr","e":t,"n":2},"m":m},"i":{"k":"num","v":1,"ty":{"k":"int","t":"usize"},"m":m},"ty":t,"m":m})),
            5 => ("keep-match-bool", json!({"k":"match","e":tru,"arms":[{"p":{"k":"ptrue","ty":{"k":"bool"},"m":m},"b":{"k":"block","ss":[{"k":"expr","e":n,"m":m}],"ty":t,"m":m}},{"p":{"k":"pid","n":"zz_o","ty":{"k":"bool"},"m":m},"b":{"k":"block","ss":[{"k":"expr","e":n,"m":m}],"ty":t,"m":m}}],"ty":t,"m":m})),
            6 if t["k"] == "int" => ("keep-identity-cast", json!({"k":"cast","to":t,"e":n,"ty":t,"m":m})),
            7 if n["k"] == "bin" && ["add", "mul", "and", "or", "xor", "eq", "ne"].contains(&n["op"].as_str().unwrap_or("")) => { let mut x = n.clone(); x["l"] = n["r"].clone(); x["r"] = n["l"].clone(); ("keep-swap-operands", x) }
            _ => { let _ = unit; continue; }
        };
        let mut mprog = prog.clone();
        set_path(&mut mprog, path, new);
        out.push((rule.to_string(), mprog));
    }
    out
}

fn default_expr(t: &str) -> String {
    match t {
        "()" => "()".into(), "u8" => "0u8".into(), "bool" => "false".into(), "i32" => "0i32".into(),
        "E0" => "E0 {}".into(), "Z1" => "Z1::A".into(), "S1" => "S1 { a: () }".into(),
        _ if t.starts_with('[') => { let inner = &t[1..t.len() - 1]; let (e, n) = inner.rsplit_once("; ").unwrap(); format!("[{}; {}]", default_expr(e), n) }
        _ if t.starts_with('(') => { let inner = &t[1..t.len() - 1]; let parts: Vec<&str> = split_top(inner); if parts.len() == 1 { format!("({},)", default_expr(parts[0])) } else { format!("({})", parts.iter().map(|p| default_expr(p)).collect::<Vec<_>>().join(", ")) } }
        _ => "0u8".into(),
    }
}
fn split_top(s: &str) -> Vec<&str> {
    let mut out = vec![]; let mut depth = 0; let mut st = 0;
    for (i, c) in s.char_indices() { match c { '(' | '[' => depth += 1, ')' | ']' => depth -= 1, ',' if depth == 0 => { out.push(s[st..i].trim()); st = i + 1; } _ => {} } }
    if !s[st..].trim().is_empty() { out.push(s[st..].trim()); }
    out
}

/// programs over zero-sized, single-array and const-sized parameter / return types
pub fn shape_programs() -> Vec<String> {
    let tys = ["()", "[u8; 0]", "[bool; 0]", "[[u8; 2]; 0]", "[(); 2]", "((), ())", "E0", "Z1", "S1", "u8", "bool", "[u8; 2]", "(u8, bool)", "[[u8; 0]; 3]", "[u8; N]", "[(u8, ()); 2]", "[Z1; 3]", "[i32; 1]"];
    let prelude = |uses: &str| { let mut p = String::new(); if uses.contains("E0") { p += "struct E0 {}\n"; } if uses.contains("Z1") { p += "enum Z1 { A }\n"; } if uses.contains("S1") { p += "struct S1 { a: () }\n"; } if uses.contains("; N]") { p += "const N: usize = PARTY_0::N;\n"; } p };
    let mut out = vec![];
    let mut mk = |params: &[&str], ret: &str| {
        let ps: Vec<String> = params.iter().enumerate().map(|(i, t)| format!("x{i}: {t}")).collect();
        let body = match params.iter().position(|t| *t == ret) { Some(i) => format!("x{i}"), None => default_expr(ret) };
        let text = format!("{}pub fn main({}) -> {} {{ {} }}\n", prelude(&format!("{} {}", params.join(" "), ret)), ps.join(", "), ret, body);
        out.push(text);
    };
    for a in tys { for r in tys { mk(&[a], r); } }
    for a in tys { for b in tys { for r in ["()", "u8", "[u8; 0]", a] { mk(&[a, b], r); } } }
    // reading and writing elements of arrays whose elements are zero-sized
    for t in ["()", "[u8; 0]", "((), ())", "E0", "Z1", "S1", "[(); 2]"] {
        let pre = prelude(t);
        out.push(format!("{pre}pub fn main(mut x0: [{t}; 2], y: u8) -> u8 {{ x0[0usize] = x0[1usize]; y }}\n"));
        out.push(format!("{pre}pub fn main(mut x0: [[{t}; 1]; 2], i: usize) -> [{t}; 1] {{ x0[i][0usize] = x0[1usize][0usize]; x0[i] }}\n"));
        out.push(format!("{pre}pub fn main(mut x0: ([{t}; 2], u8)) -> u8 {{ x0.0[1usize] = x0.0[0usize]; for e in x0.0 {{ x0.1 = x0.1 + 1u8; }} x0.1 }}\n"));
    }
    // the join built-in: rows with associated data of different widths on the two sides
    let rows = ["(u8, u16, u16)", "(u8, bool)", "(u8, u32)", "(u8, (u8, u8), i64)", "(u8, [bool; 3])"];
    for ra in rows { for rb in rows {
        for (n, m) in [(2usize, 3usize), (3, 1)] {
            out.push(format!("pub fn main(a: [{ra}; {n}], b: [{rb}; {m}]) -> [(bool, {ra}, {rb}); const {{ {n}usize + {m}usize - 1usize }}] {{ join(a, b) }}\n"));
        }
    } }
    for k in ["u8", "u16", "[u8; 2]"] { out.push(format!("pub fn main(a: [{k}; 3], b: [{k}; 2]) -> [(bool, {k}); const {{ 3usize + 2usize - 1usize }}] {{ join(a, b) }}\n")); }
    out.sort(); out.dedup();
    out
}

/// shape5-record <events.ndjson> <generated programs> <corpus dir>
pub fn cmd_record(args: &[String]) {
    quiet_panics();
    let seed = seed_from_env();
    let mut w = writer(&args[0]);
    let n: usize = args[1].parse().unwrap();
    let mut rng = Rng::new(seed ^ 0x5005);
    // 1. corpus programs, every pub fn
    for (f, src) in crate::corpus::good_programs(&args[2]) { run_source(&mut w, &format!("corpus/{f}"), "corpus", &src, &mut rng); }
    // 2. zero-size / single-array / const-size shapes
    for (i, src) in shape_programs().iter().enumerate() {
        let fam = if src.contains("; N]") { "const-size" } else { "shapes" };
        run_source(&mut w, &format!("shape-{i}"), fam, src, &mut rng);
    }
    // 3. generated programs: annotated, type-preserving rewrites, suffix-erased variants
    let mut made = 0;
    let mut k = 0u64;
    while made < n && k < 30 * n as u64 {
        k += 1;
        let mut prng = Rng::new(seed.wrapping_mul(7919).wrapping_add(k));
        let profile = if k % 2 == 0 { crate::pgen::Profile::Mutation } else { crate::pgen::Profile::Default };
        let src = { let mut g = crate::pgen::Gen::new(&mut prng, profile); g.program() };
        if src.len() > 2500 { continue; }
        let Ok(base) = project(&src) else { continue };
        let rendered = printer::program(&base);
        match project(&rendered) { Ok(back) if strip(&back) == strip(&base) => {}, _ => continue }
        made += 1;
        let id = format!("gen-{seed}-{k}");
        emit(&mut w, &json!({"ev":"Types","id":id,"rule":"base","base":true,"prog":strip(&base),"accepted":true,"panic":false,"roundtrip":true,"src":rendered,"msg":""}));
        run_source(&mut w, &id, "annotated", &rendered, &mut rng);
        for (j, (rule, m)) in preserving(&base, &mut rng, 12).into_iter().enumerate() {
            let msrc = printer::program(&m);
            if std::env::var("VERIF_DEBUG").is_ok() { eprintln!("[shape5] {id}-k{j} {rule}\n{msrc}"); }
            let (accepted, panic, msg) = match guarded(|| garble_lang::check(&msrc)) { Ok(Ok(_)) => (true, false, String::new()), Ok(Err(e)) => (false, false, e.prettify(&msrc).chars().take(300).collect()), Err(p) => (false, true, p) };
            emit(&mut w, &json!({"ev":"Types","id":format!("{id}-k{j}"),"rule":rule,"base":true,"prog":strip(&m),"accepted":accepted,"panic":panic,"roundtrip":true,"src":msrc,"msg":msg}));
            if accepted && j < 3 { run_source(&mut w, &format!("{id}-k{j}"), "preserving", &msrc, &mut rng); }
        }
        let sites = num_sites(&base);
        if sites.is_empty() { continue; }
        let base_circuit = match guarded(|| garble_lang::compile(&rendered)) { Ok(Ok(p)) => Some(p.circuit.unwrap_ssa_ref().clone()), _ => None };
        let mut subsets: Vec<Vec<usize>> = vec![];
        let mut order: Vec<usize> = (0..sites.len()).collect();
        for i in (1..order.len()).rev() { let j = rng.below(i + 1); order.swap(i, j); }
        for i in order.iter().take(16) { subsets.push(vec![*i]); }
        for _ in 0..6 { let c = 2 + rng.below(2); let mut s: Vec<usize> = (0..c).map(|_| rng.below(sites.len())).collect(); s.sort(); s.dedup(); subsets.push(s); }
        subsets.push((0..sites.len()).collect());
        subsets.sort(); subsets.dedup();
        for (j, sub) in subsets.iter().enumerate() {
            let mut m = base.clone();
            for i in sub { let mut x = get_path(&m, &sites[*i]).clone(); x["nosfx"] = json!(true); set_path(&mut m, &sites[*i], x); }
            let msrc = printer::program(&m);
            match &base_circuit {
                Some(c) => { let a = Annotated { ast: &base, circuit: c }; run_source_with(&mut w, &format!("{id}-e{j}"), "erased", &msrc, &mut rng, Some(&a)); }
                _ => { run_source(&mut w, &format!("{id}-e{j}"), "erased", &msrc, &mut rng); }
            }
        }
    }
    let _ = (SignedNumType::I8, UnsignedNumType::U8);
}

/// shape5-files <out.ndjson> <file>...: Shape events for the given source files (debugging, replay)
pub fn cmd_files(args: &[String]) {
    quiet_panics();
    let mut w = writer(&args[0]);
    let mut rng = Rng::new(seed_from_env());
    for f in &args[1..] { let src = std::fs::read_to_string(f).unwrap(); run_source(&mut w, f, "file", &src, &mut rng); }
}
