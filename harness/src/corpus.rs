//! Corpus handling: classification of program texts in isolated worker processes.
use crate::util::*;
use serde_json::{json, Value};
use std::io::Read;
use std::process::{Command, Stdio};
use std::time::{Duration, Instant};

/// Runs this executable with the given args in a child process, with a deadline.
/// Returns (status, stdout) where status is "ok", "hang", or "crash:<code>".
pub fn run_worker(args: &[&str], stdin: Option<&[u8]>, deadline: Duration) -> (String, String) {
    let exe = std::env::current_exe().unwrap();
    let mut child = Command::new(exe)
        .args(args)
        .stdin(if stdin.is_some() { Stdio::piped() } else { Stdio::null() })
        .stdout(Stdio::piped())
        .stderr(Stdio::null())
        .spawn()
        .expect("spawn worker");
    if let Some(data) = stdin {
        use std::io::Write;
        let mut si = child.stdin.take().unwrap();
        let _ = si.write_all(data);
    }
    let start = Instant::now();
    let mut out = child.stdout.take().unwrap();
    // read stdout in a thread so a chatty child cannot block
    let reader = std::thread::spawn(move || {
        let mut s = String::new();
        let _ = out.read_to_string(&mut s);
        s
    });
    loop {
        match child.try_wait() {
            Ok(Some(st)) => {
                let s = reader.join().unwrap_or_default();
                if st.success() {
                    return ("ok".into(), s);
                }
                return (format!("crash:{:?}", st.code()), s);
            }
            Ok(None) => {
                if start.elapsed() > deadline {
                    let _ = child.kill();
                    let _ = child.wait();
                    return ("hang".into(), String::new());
                }
                std::thread::sleep(Duration::from_millis(2));
            }
            Err(_) => return ("crash:wait".into(), String::new()),
        }
    }
}

/// compile-one <file>: prints {"status": "ok"|"err"|"panic", ...}
pub fn cmd_compile_one(args: &[String]) {
    quiet_panics();
    let src = std::fs::read_to_string(&args[0]).unwrap();
    let r = guarded(|| garble_lang::compile(&src));
    let v = match r {
        Ok(Ok(p)) => json!({"status":"ok","params":p.main.params.len(),"gates":p.circuit.ops()}),
        Ok(Err(e)) => json!({"status":"err","err":format!("{e:?}").chars().take(200).collect::<String>()}),
        Err(m) => json!({"status":"panic","msg":m}),
    };
    println!("{v}");
}

/// corpus-classify <dir> <index.json>
pub fn cmd_classify(args: &[String]) {
    let mut files: Vec<_> = std::fs::read_dir(&args[0]).unwrap().map(|e| e.unwrap().path()).filter(|p| p.to_string_lossy().ends_with(".garble.rs")).collect();
    files.sort();
    let mut idx = vec![];
    for f in files {
        let (st, out) = run_worker(&["compile-one", f.to_str().unwrap()], None, Duration::from_secs(20));
        let v: Value = if st == "ok" { serde_json::from_str(out.trim()).unwrap_or(json!({"status":"garbled"})) } else { json!({"status": st}) };
        idx.push(json!({"file": f.file_name().unwrap().to_string_lossy(), "res": v}));
    }
    std::fs::write(&args[1], serde_json::to_string_pretty(&Value::Array(idx)).unwrap()).unwrap();
}

/// the compilable corpus programs: (file name, source)
pub fn good_programs(dir: &str) -> Vec<(String, String)> {
    let idx: Value = serde_json::from_str(&std::fs::read_to_string(format!("{dir}/index.json")).unwrap()).unwrap();
    let mut res = vec![];
    for e in idx.as_array().unwrap() {
        if e["res"]["status"] == "ok" {
            let f = e["file"].as_str().unwrap();
            res.push((f.to_string(), std::fs::read_to_string(format!("{dir}/{f}")).unwrap()));
        }
    }
    res
}
