//! C17: rule-breaking edits of well-typed programs, applied to the projected AST at every
//! applicable site; the mutant is rendered to source and given to the real checker; the
//! specification (GarbleTypes.tla) decides whether the mutant is ill-typed.
use crate::printer;
use crate::proj::Proj;
use crate::util::*;
use serde_json::{json, Value};

#[derive(Clone, Debug)]
pub enum P { K(String), I(usize) }

pub fn get_path<'a>(v: &'a Value, path: &[P]) -> &'a Value { get(v, path) }
pub fn set_path(v: &mut Value, path: &[P], new: Value) { set(v, path, new) }
fn get<'a>(v: &'a Value, path: &[P]) -> &'a Value {
    let mut cur = v;
    for p in path { cur = match p { P::K(k) => &cur[k.as_str()], P::I(i) => &cur[*i] }; }
    cur
}
fn set(v: &mut Value, path: &[P], new: Value) {
    let mut cur = v;
    for p in path { cur = match p { P::K(k) => &mut cur[k.as_str()], P::I(i) => &mut cur[*i] }; }
    *cur = new;
}
pub fn walk_paths(v: &Value, path: &mut Vec<P>, out: &mut Vec<Vec<P>>) { walk(v, path, out) }
fn walk(v: &Value, path: &mut Vec<P>, out: &mut Vec<Vec<P>>) {
    match v {
        Value::Object(m) => {
            if m.contains_key("k") { out.push(path.clone()); }
            for (k, x) in m { if k == "ty" || k == "m" || k == "cty" || k == "pty" { continue; } path.push(P::K(k.clone())); walk(x, path, out); path.pop(); }
        }
        Value::Array(a) => for (i, x) in a.iter().enumerate() { path.push(P::I(i)); walk(x, path, out); path.pop(); },
        _ => {}
    }
}

/// removes source spans and the type annotations of inner nodes (kept on literals and patterns)
pub fn strip(v: &Value) -> Value {
    match v {
        Value::Object(m) => {
            let k = m.get("k").and_then(|x| x.as_str()).unwrap_or("");
            let keep_ty = matches!(k, "num" | "pnum" | "prange") || !m.contains_key("k");
            let mut o = serde_json::Map::new();
            for (key, x) in m { if key == "m" || key == "cty" || key == "pty" || key == "nosfx" || (key == "ty" && !keep_ty) { continue; } o.insert(key.clone(), strip(x)); }
            // the parser orders the fields of struct literals and struct patterns by name
            if matches!(k, "slit" | "pstruct") { if let Some(Value::Array(fs)) = o.get_mut("fs") { fs.sort_by(|a, b| a["n"].as_str().unwrap_or("").cmp(b["n"].as_str().unwrap_or(""))); } }
            Value::Object(o)
        }
        Value::Array(a) => Value::Array(a.iter().map(strip).collect()),
        x => x.clone(),
    }
}

fn int_ty(t: &str) -> Value { json!({"k":"int","t":t}) }
fn fits(v: i64, t: &str) -> bool { match t { "u8" => (0..=255).contains(&v), "i8" => (-128..=127).contains(&v), "u16" => (0..=65535).contains(&v), "i16" => (-32768..=32767).contains(&v), "u32" | "u64" | "usize" => v >= 0, _ => true } }

/// all mutants of a program: (rule, mutated AST)
fn mutants(prog: &Value) -> Vec<(String, Value)> {
    let mut out: Vec<(String, Value)> = vec![];
    let mut paths = vec![];
    walk(prog, &mut vec![], &mut paths);
    let mut emit = |rule: &str, path: &[P], new: Value, out: &mut Vec<(String, Value)>| { let mut m = prog.clone(); set(&mut m, path, new); out.push((rule.to_string(), m)); };
    for path in &paths {
        let n = get(prog, path);
        let k = n["k"].as_str().unwrap_or("");
        match k {
            "num" => {
                let v = n["v"].as_i64().unwrap_or(0);
                let cur = n["ty"]["t"].as_str().unwrap_or("");
                for t in ["u8", "i8", "u16", "i32", "usize"] { if t != cur && fits(v, t) { let mut x = n.clone(); x["ty"] = int_ty(t); emit("operand-type", path, x, &mut out); break; } }
                emit("bool-for-number", path, json!({"k":"true","ty":{"k":"bool"},"m":n["m"]}), &mut out);
                let big = match cur { "u8" => Some(300), "i8" => Some(200), "u16" => Some(70000), "i16" => Some(40000), _ => None };
                if let Some(big) = big { let mut x = n.clone(); x["v"] = json!(big); emit("literal-out-of-range", path, x, &mut out); }
            }
            "pnum" | "prange" => {
                let cur = n["ty"]["t"].as_str().unwrap_or("");
                let vs: Vec<i64> = if k == "pnum" { vec![n["v"].as_i64().unwrap_or(0)] } else { vec![n["lo"].as_i64().unwrap_or(0), n["hi"].as_i64().unwrap_or(0)] };
                // same signedness of the token, so that the parser accepts it and the checker decides
                let cands: &[&str] = if cur.starts_with('i') { &["i8", "i16", "i32", "i64"] } else { &["u8", "u16", "u32", "usize", "u64"] };
                for t in cands { if *t != cur && vs.iter().all(|v| fits(*v, t)) { let mut x = n.clone(); x["ty"] = int_ty(t); emit("pattern-type", path, x, &mut out); break; } }
                let big = match cur { "u8" => Some(300), "i8" => Some(200), "u16" => Some(70000), "i16" => Some(40000), _ => None };
                if let (Some(big), "pnum") = (big, k) { let mut x = n.clone(); x["v"] = json!(big); x["nosfx"] = json!(true); emit("pattern-out-of-range", path, x, &mut out); }
                emit("pattern-type", path, json!({"k":"ptrue","ty":{"k":"bool"},"m":n["m"]}), &mut out);
            }
            "ptrue" | "pfalse" => emit("pattern-type", path, json!({"k":"pnum","v":1,"ty":int_ty("u8"),"m":n["m"]}), &mut out),
            "pstruct" => {
                let fs = n["fs"].as_array().cloned().unwrap_or_default();
                if !fs.is_empty() {
                    let mut x = n.clone(); let mut a = fs.clone(); a.push(fs[0].clone()); x["fs"] = Value::Array(a); emit("duplicated-field", path, x, &mut out);
                    if !n["rest"].as_bool().unwrap_or(false) { let mut x = n.clone(); let mut a = fs.clone(); a.pop(); x["fs"] = Value::Array(a); emit("missing-field", path, x, &mut out); }
                    let mut x = n.clone(); let mut a = fs.clone(); a[0]["n"] = json!("zz_nofield"); x["fs"] = Value::Array(a); emit("unknown-field", path, x, &mut out);
                    if fs.len() >= 2 { let mut x = n.clone(); let mut a = fs.clone(); a[1]["n"] = fs[0]["n"].clone(); x["fs"] = Value::Array(a); emit("duplicated-field", path, x, &mut out); }
                }
            }
            "penum" => {
                let mut x = n.clone(); x["v"] = json!("ZzNoVariant"); emit("unknown-variant", path, x, &mut out);
                let ps = n["ps"].as_array().cloned().unwrap_or_default();
                if !ps.is_empty() { let mut x = n.clone(); let mut a = ps.clone(); a.pop(); x["ps"] = Value::Array(a); emit("variant-arity", path, x, &mut out); }
            }
            "ptup" => {
                let ps = n["ps"].as_array().cloned().unwrap_or_default();
                if ps.len() >= 2 { let mut x = n.clone(); let mut a = ps.clone(); a.pop(); x["ps"] = Value::Array(a); emit("tuple-pattern-arity", path, x, &mut out); }
            }
            "true" | "false" => emit("number-for-bool", path, json!({"k":"num","v":1,"ty":int_ty("u8"),"m":n["m"]}), &mut out),
            "var" => { let mut x = n.clone(); x["n"] = json!("zz_unknown"); emit("unknown-identifier", path, x, &mut out); }
            "letmut" => { let x = json!({"k":"let","p":{"k":"pid","n":n["n"],"ty":n["e"]["ty"],"m":n["m"]},"e":n["e"],"m":n["m"]}); emit("assign-to-immutable", path, x, &mut out); }
            "let" => {
                if n["p"]["k"] == "pid" {
                    let t = &n["e"]["ty"];
                    let rp = if t["k"] == "bool" { Some(json!({"k":"ptrue","ty":t,"m":n["m"]})) } else if t["k"] == "int" { Some(json!({"k":"pnum","v":0,"ty":t,"m":n["m"]})) } else { None };
                    if let Some(rp) = rp { let mut x = n.clone(); x["p"] = rp; emit("refutable-let", path, x, &mut out); }
                }
            }
            "for" => {
                if n["p"]["k"] == "pid" {
                    let t = &n["e"]["ty"]["e"];
                    let rp = if t["k"] == "bool" { Some(json!({"k":"pfalse","ty":t,"m":n["m"]})) } else if t["k"] == "int" { Some(json!({"k":"pnum","v":1,"ty":t,"m":n["m"]})) } else { None };
                    if let Some(rp) = rp { let mut x = n.clone(); x["p"] = rp; emit("refutable-for", path, x, &mut out); }
                }
            }
            "call" => {
                let args = n["args"].as_array().cloned().unwrap_or_default();
                if !args.is_empty() { let mut x = n.clone(); let mut a = args.clone(); a.pop(); x["args"] = Value::Array(a); emit("too-few-arguments", path, x, &mut out);
                                      let mut x = n.clone(); let mut a = args.clone(); a.push(args[args.len() - 1].clone()); x["args"] = Value::Array(a); emit("too-many-arguments", path, x, &mut out); }
                let mut x = n.clone(); x["f"] = json!("zz_unknown_fn"); emit("unknown-function", path, x, &mut out);
            }
            "slit" => {
                let fs = n["fs"].as_array().cloned().unwrap_or_default();
                if !fs.is_empty() {
                    let mut x = n.clone(); let mut a = fs.clone(); a.pop(); x["fs"] = Value::Array(a); emit("missing-field", path, x, &mut out);
                    let mut x = n.clone(); let mut a = fs.clone(); a.push(fs[0].clone()); x["fs"] = Value::Array(a); emit("duplicated-field", path, x, &mut out);
                    let mut x = n.clone(); let mut a = fs.clone(); a[0]["n"] = json!("zz_nofield"); x["fs"] = Value::Array(a); emit("unknown-field", path, x, &mut out);
                    if fs.len() >= 2 && strip(&fs[0]["e"]["ty"]) == strip(&fs[1]["e"]["ty"]) { let mut x = n.clone(); let mut a = fs.clone(); a[1]["n"] = fs[0]["n"].clone(); x["fs"] = Value::Array(a); emit("duplicated-field", path, x, &mut out); }
                }
            }
            "sacc" => { let mut x = n.clone(); x["f"] = json!("zz_nofield"); emit("unknown-field", path, x, &mut out); }
            "tupacc" => { let mut x = n.clone(); x["i"] = json!(7); emit("tuple-index-out-of-range", path, x, &mut out); }
            "elit" => {
                let mut x = n.clone(); x["v"] = json!("ZzNoVariant"); emit("unknown-variant", path, x, &mut out);
                let es = n["es"].as_array().cloned().unwrap_or_default();
                if !es.is_empty() { let mut x = n.clone(); let mut a = es.clone(); a.pop(); x["es"] = Value::Array(a); emit("variant-arity", path, x, &mut out); }
                let mut x = n.clone(); let mut a = es.clone(); a.push(json!({"k":"true","ty":{"k":"bool"},"m":n["m"]})); x["es"] = Value::Array(a); emit("variant-arity", path, x, &mut out);
            }
            "if" => {
                let t = &n["t"]["ty"];
                let other = if t["k"] == "bool" { json!({"k":"num","v":1,"ty":int_ty("u8"),"m":n["m"]}) } else { json!({"k":"true","ty":{"k":"bool"},"m":n["m"]}) };
                let mut x = n.clone(); x["f"] = other; emit("branch-types", path, x, &mut out);
                let mut x = n.clone(); x["c"] = json!({"k":"num","v":1,"ty":int_ty("u8"),"m":n["m"]}); emit("non-boolean-condition", path, x, &mut out);
            }
            "bin" => {
                let o = n["op"].as_str().unwrap_or("");
                if ["add", "sub", "mul"].contains(&o) && n["l"]["ty"]["k"] == "int" { let mut x = n.clone(); x["op"] = json!("land"); emit("boolean-operator-on-numbers", path, x, &mut out); }
                if ["land", "lor"].contains(&o) { let mut x = n.clone(); x["op"] = json!("add"); emit("arithmetic-on-booleans", path, x, &mut out); }
            }
            "un" => { if n["op"] == "neg" { let mut x = n.clone(); x["e"] = json!({"k":"num","v":1,"ty":int_ty("u8"),"m":n["m"]}); emit("negation-of-unsigned", path, x, &mut out); } }
            "idx" => { let mut x = n.clone(); x["i"] = json!({"k":"num","v":0,"ty":int_ty("u8"),"m":n["m"]}); emit("index-not-usize", path, x, &mut out); }
            "assign" | "opassign" => { let mut x = n.clone(); x["n"] = json!("zz_unknown"); emit("unknown-identifier", path, x, &mut out); }
            _ => {}
        }
    }
    // scoping between match clauses: a name bound by the pattern of one clause is used in the next clause
    // typing of blocks: a block that ends with a statement has type () wherever its value is used
    for path in &paths {
        let n = get(prog, path);
        match n["k"].as_str().unwrap_or("") {
            "match" => {
                let arms = n["arms"].as_array().cloned().unwrap_or_default();
                // the clauses of a match must agree in type: one clause gets a value of another type / a block that ends with a statement
                for j in 0..arms.len() {
                    if arms.len() < 2 || arms[j]["b"]["k"] != "block" { continue; }
                    let z = json!([0, 0, 0, 0]);
                    let t = &arms[j]["b"]["ty"];
                    let other = if t["k"] == "bool" { json!({"k":"num","v":1,"ty":int_ty("u8"),"m":z}) } else { json!({"k":"true","ty":{"k":"bool"},"m":z}) };
                    let mut x = n.clone();
                    x["arms"][j]["b"]["ss"] = json!([{"k":"expr","e":other,"m":z}]);
                    emit("clause-types", path, x, &mut out);
                    let unit = t["k"] == "tup" && t["fs"].as_array().map(|a| a.is_empty()).unwrap_or(false);
                    if !unit {
                        let mut x = n.clone();
                        let inner = json!({"k":"block","ss":[{"k":"let","p":{"k":"pid","n":"zz_u","ty":{"k":"bool"},"m":z},"e":{"k":"true","ty":{"k":"bool"},"m":z},"m":z}],"ty":{"k":"tup","fs":[]},"m":z});
                        x["arms"][j]["b"]["ss"] = json!([{"k":"expr","e":inner,"m":z}]);
                        emit("clause-types", path, x, &mut out);
                    }
                }
                for i in 0..arms.len() {
                    let mut names: Vec<(String, Value)> = vec![];
                    bound_names(&arms[i]["p"], &mut names);
                    for j in 0..arms.len() {
                        if i == j || arms[j]["b"]["k"] != "block" { continue; }
                        for (name, t) in names.iter().take(1) {
                            let z = json!([0, 0, 0, 0]);
                            let use_stmt = json!({"k":"let","p":{"k":"pid","n":"zz_s","ty":t,"m":z},"e":{"k":"var","n":name,"ty":t,"m":z},"m":z});
                            let mut x = n.clone();
                            // the body of a clause is the block the parser wraps around its single statement: the use goes into
                            // a block that becomes that single statement
                            let mut ss = arms[j]["b"]["ss"].as_array().cloned().unwrap_or_default();
                            ss.insert(0, use_stmt);
                            let inner = json!({"k":"block","ss":ss,"ty":arms[j]["b"]["ty"],"m":z});
                            x["arms"][j]["b"]["ss"] = json!([{"k":"expr","e":inner,"m":z}]);
                            emit("binder-of-another-clause", path, x, &mut out);
                        }
                    }
                }
            }
            "block" => {
                let ss = n["ss"].as_array().cloned().unwrap_or_default();
                if let Some(last) = ss.last() {
                    let unit = |t: &Value| t["k"] == "tup" && t["fs"].as_array().map(|a| a.is_empty()).unwrap_or(false);
                    if last["k"] == "expr" && !unit(&last["e"]["ty"]) && !unit(&n["ty"]) {
                        let z = json!([0, 0, 0, 0]);
                        let mut x = n.clone();
                        let mut ss2 = ss.clone();
                        ss2.push(json!({"k":"let","p":{"k":"pid","n":"zz_u","ty":{"k":"bool"},"m":z},"e":{"k":"true","ty":{"k":"bool"},"m":z},"m":z}));
                        x["ss"] = Value::Array(ss2);
                        emit("block-ends-with-statement", path, x, &mut out);
                    }
                }
            }
            _ => {}
        }
    }
    // scoping: a name bound by a loop pattern, inside a loop body or inside a block / branch is used right after that statement
    fn bound_names(p: &Value, out: &mut Vec<(String, Value)>) {
        match p["k"].as_str().unwrap_or("") {
            "pid" => out.push((p["n"].as_str().unwrap_or("").to_string(), p["ty"].clone())),
            "ptup" | "penum" => for q in p["ps"].as_array().unwrap() { bound_names(q, out); },
            "pstruct" => for f in p["fs"].as_array().unwrap() { bound_names(&f["p"], out); },
            _ => {}
        }
    }
    fn lets_of(ss: &Value, out: &mut Vec<(String, Value)>) {
        for st in ss.as_array().map(|a| a.as_slice()).unwrap_or(&[]) {
            match st["k"].as_str().unwrap_or("") { "let" => bound_names(&st["p"], out), "letmut" => out.push((st["n"].as_str().unwrap_or("").to_string(), st["e"]["ty"].clone())), _ => {} }
        }
    }
    for path in &paths {
        let Some(P::I(i)) = path.last() else { continue };
        if path.len() < 2 { continue; }
        let parent = &path[..path.len() - 1];
        if !matches!(parent.last(), Some(P::K(k)) if k == "body" || k == "ss") { continue; }
        let n = get(prog, path);
        let mut names: Vec<(String, Value)> = vec![];
        match n["k"].as_str().unwrap_or("") {
            "for" => { bound_names(&n["p"], &mut names); lets_of(&n["body"], &mut names); }
            "forjoin" => { bound_names(&n["p"], &mut names); lets_of(&n["body"], &mut names); }
            "expr" => match n["e"]["k"].as_str().unwrap_or("") {
                "block" => lets_of(&n["e"]["ss"], &mut names),
                "if" => { if n["e"]["t"]["k"] == "block" { lets_of(&n["e"]["t"]["ss"], &mut names); } if n["e"]["f"]["k"] == "block" { lets_of(&n["e"]["f"]["ss"], &mut names); } }
                "match" => for a in n["e"]["arms"].as_array().unwrap() { bound_names(&a["p"], &mut names); },
                _ => {}
            },
            _ => {}
        }
        names.dedup_by(|a, b| a.0 == b.0);
        for (name, t) in names.into_iter().take(3) {
            let z = json!([0, 0, 0, 0]);
            let use_stmt = json!({"k":"let","p":{"k":"pid","n":"zz_s","ty":t,"m":z},"e":{"k":"var","n":name,"ty":t,"m":z},"m":z});
            let mut m = prog.clone();
            let arr = get(prog, parent).as_array().unwrap();
            let mut a = arr.clone();
            // the value of a block is its last statement: keep it last
            let at = if *i + 1 == arr.len() && (parent.len() == 3 || parent.last().map(|k| matches!(k, P::K(s) if s == "ss")).unwrap_or(false)) { continue } else { *i + 1 };
            a.insert(at, use_stmt);
            set(&mut m, parent, Value::Array(a));
            out.push(("out-of-scope-identifier".to_string(), m));
        }
    }
    // function-level rules
    if let Some(fns) = prog["fns"].as_object() {
        for (name, f) in fns {
            // direct recursion: the function calls itself with its own parameters
            let args: Vec<Value> = f["params"].as_array().unwrap().iter().map(|p| json!({"k":"var","n":p["n"],"ty":p["t"],"m":[0,0,0,0]})).collect();
            let call = json!({"k":"let","p":{"k":"pid","n":"zz_rec","ty":f["ret"],"m":[0,0,0,0]},"e":{"k":"call","f":name,"args":args,"ty":f["ret"],"m":[0,0,0,0]},"m":[0,0,0,0]});
            let mut m = prog.clone(); let mut body = f["body"].as_array().unwrap().clone(); body.insert(0, call); m["fns"][name]["body"] = Value::Array(body); out.push(("recursion".into(), m));
            // return type
            let other = if f["ret"]["k"] == "bool" { int_ty("u8") } else { json!({"k":"bool"}) };
            let mut m = prog.clone(); m["fns"][name]["ret"] = other; out.push(("return-type".into(), m));
            if f["pub"].as_bool().unwrap_or(false) { let mut m = prog.clone(); m["fns"][name]["params"] = json!([]); out.push(("pub-fn-without-params".into(), m)); }
            else { // a private fn that nobody calls: rename it so that the existing calls go to an unknown fn ... simpler: add an unused copy
                let mut m = prog.clone(); let mut copy = f.clone(); copy["pub"] = json!(false); m["fns"]["zz_unused"] = copy; out.push(("unused-private-fn".into(), m));
            }
        }
        // a parameterless pub fn that is called from main, directly or through a private helper
        if fns.contains_key("main") {
            let z = [0, 0, 0, 0];
            let tb = json!({"k":"bool"});
            let zz_p = json!({"params":[],"ret":tb,"pub":true,"body":[{"k":"expr","e":{"k":"true","ty":tb,"m":z},"m":z}]});
            let call_p = json!({"k":"call","f":"zz_p","args":[],"ty":tb,"m":z});
            let let_of = |e: Value| json!({"k":"let","p":{"k":"pid","n":"zz_c","ty":tb,"m":z},"e":e,"m":z});
            let mut m = prog.clone(); m["fns"]["zz_p"] = zz_p.clone();
            let mut body = fns["main"]["body"].as_array().unwrap().clone(); body.insert(0, let_of(call_p.clone())); m["fns"]["main"]["body"] = Value::Array(body);
            out.push(("called-pub-fn-without-params".into(), m));
            let mut m = prog.clone(); m["fns"]["zz_p"] = zz_p;
            m["fns"]["zz_h"] = json!({"params":[{"n":"a","t":tb,"mut":false}],"ret":tb,"pub":false,"body":[{"k":"expr","e":call_p,"m":z}]});
            let call_h = json!({"k":"call","f":"zz_h","args":[{"k":"true","ty":tb,"m":z}],"ty":tb,"m":z});
            let mut body = fns["main"]["body"].as_array().unwrap().clone(); body.insert(0, let_of(call_h)); m["fns"]["main"]["body"] = Value::Array(body);
            out.push(("called-pub-fn-without-params".into(), m));
        }
        // mutual recursion between two helper functions f0 <-> f1 when both exist
        if fns.contains_key("f0") && fns.contains_key("f1") {
            let f0 = &fns["f0"];
            let args: Vec<Value> = f0["params"].as_array().unwrap().iter().map(|p| json!({"k":"var","n":p["n"],"ty":p["t"],"m":[0,0,0,0]})).collect();
            // f0's body calls f1(...) is not constructible without typed arguments for f1; instead f1 (later) may already call f0: add f0 -> f1 only if f1 has the same parameter list
            if f0["params"] == fns["f1"]["params"] {
                let call = json!({"k":"let","p":{"k":"pid","n":"zz_rec","ty":fns["f1"]["ret"],"m":[0,0,0,0]},"e":{"k":"call","f":"f1","args":args,"ty":fns["f1"]["ret"],"m":[0,0,0,0]},"m":[0,0,0,0]});
                let mut m = prog.clone(); let mut body = f0["body"].as_array().unwrap().clone(); body.insert(0, call.clone()); m["fns"]["f0"]["body"] = Value::Array(body);
                let mut call2 = call; call2["e"]["f"] = json!("f0"); call2["p"]["ty"] = f0["ret"].clone(); call2["e"]["ty"] = f0["ret"].clone();
                let mut body1 = fns["f1"]["body"].as_array().unwrap().clone(); body1.insert(0, call2); m["fns"]["f1"]["body"] = Value::Array(body1);
                out.push(("mutual-recursion".into(), m));
            }
        }
    }
    out
}

pub fn project(src: &str) -> Result<Value, String> {
    match guarded(|| garble_lang::check(src)) {
        Ok(Ok(p)) => { let cs = std::collections::HashMap::new(); let mut pr = Proj::new(&p, &cs); let v = pr.program("main"); if pr.oom.is_empty() { Ok(v) } else { Err(format!("oom: {}", pr.oom[0])) } }
        Ok(Err(e)) => Err(format!("rejected: {}", e.prettify(src).chars().take(300).collect::<String>())),
        Err(m) => Err(format!("panic: {m}")),
    }
}

/// types-mutants <events.ndjson> <programs> [pairs: 0|1]
pub fn cmd_mutants(args: &[String]) {
    quiet_panics();
    let seed = seed_from_env();
    let mut w = writer(&args[0]);
    let n: usize = args[1].parse().unwrap();
    let pairs = args.get(2).map(|s| s == "1").unwrap_or(false);
    let mut made = 0;
    let mut k = 0u64;
    while made < n && k < 30 * n as u64 {
        k += 1;
        let mut rng = Rng::new(seed.wrapping_mul(104729).wrapping_add(k));
        let profile = if k % 2 == 0 { crate::pgen::Profile::Mutation } else { crate::pgen::Profile::Default };
        let src = { let mut g = crate::pgen::Gen::new(&mut rng, profile); g.program() };
        if src.len() > 2500 { continue; }
        let Ok(base) = project(&src) else { continue };
        // the printer must reproduce the program: print -> real parser/checker -> project gives the same AST
        let rendered = printer::program(&base);
        match project(&rendered) { Ok(back) if strip(&back) == strip(&base) => {}, other => { emit(&mut w, &json!({"ev":"PrinterMismatch","id":format!("base-{seed}-{k}"),"src":src,"rendered":rendered,"why":format!("{:?}", other.err())})); continue; } }
        made += 1;
        let id = format!("base-{seed}-{k}");
        emit(&mut w, &json!({"ev":"Types","id":id,"rule":"base","base":true,"prog":strip(&base),"accepted":true,"panic":false,"roundtrip":true,"src":rendered}));
        let ms = mutants(&base);
        let mut all: Vec<(String, Value)> = ms.clone();
        if pairs { // combinations of two edits: second edit applied to a few first-edit mutants
            for (r1, m1) in ms.iter().step_by(7).take(6) { for (r2, m2) in mutants(m1).into_iter().step_by(11).take(5) { all.push((format!("{r1}+{r2}"), m2)); } }
        }
        for (j, (rule, m)) in all.into_iter().enumerate() {
            let msrc = printer::program(&m);
            let mut diff = String::new();
            let mut verdict = project(&msrc);
            for _ in 0..2 { if verdict.is_ok() { break; } let again = project(&msrc); if again.is_ok() || again.as_ref().err().map(|e| e.starts_with("panic")).unwrap_or(false) { verdict = again; } }
            let (accepted, panic, roundtrip) = match verdict {
                Ok(back) => { let same = strip(&back) == strip(&m); if !same { diff = first_diff(&strip(&back), &strip(&m), String::new()).unwrap_or_default(); } (true, false, same) }
                Err(e) if e.starts_with("panic") => (false, true, true),
                Err(e) if e.starts_with("oom") => (true, false, false),
                Err(_) => (false, false, true),
            };
            emit(&mut w, &json!({"ev":"Types","id":format!("{id}-m{j}"),"rule":rule,"base":false,"prog":strip(&m),"accepted":accepted,"panic":panic,"roundtrip":roundtrip,"src":msrc,"diff":diff}));
        }
    }
}

fn first_diff(a: &Value, b: &Value, path: String) -> Option<String> {
    match (a, b) {
        (Value::Object(x), Value::Object(y)) => { for (k, v) in x { match y.get(k) { Some(w) => if let Some(d) = first_diff(v, w, format!("{path}.{k}")) { return Some(d); }, None => return Some(format!("{path}.{k} missing on the right")) } } for k in y.keys() { if !x.contains_key(k) { return Some(format!("{path}.{k} missing on the left")); } } None }
        (Value::Array(x), Value::Array(y)) => { if x.len() != y.len() { return Some(format!("{path}: lengths {} vs {}: {} || {}", x.len(), y.len(), a.to_string().chars().take(200).collect::<String>(), b.to_string().chars().take(200).collect::<String>())); } for (i, (v, w)) in x.iter().zip(y).enumerate() { if let Some(d) = first_diff(v, w, format!("{path}[{i}]")) { return Some(d); } } None }
        _ => if a == b { None } else { Some(format!("{path}: {} vs {}", a.to_string().chars().take(150).collect::<String>(), b.to_string().chars().take(150).collect::<String>())) }
    }
}

/// printer-debug <n>: where does print -> parse -> project differ from the original projection
pub fn cmd_printer_debug(args: &[String]) {
    quiet_panics();
    let n: usize = args[0].parse().unwrap();
    let mut shown = 0;
    for k in 1..2000u64 {
        if shown >= n { break; }
        let mut rng = Rng::new(104729u64.wrapping_add(k));
        let src = { let mut g = crate::pgen::Gen::new(&mut rng, crate::pgen::Profile::Mutation); g.program() };
        let Ok(base) = project(&src) else { continue };
        let rendered = printer::program(&base);
        match project(&rendered) { Ok(back) => if let Some(d) = first_diff(&strip(&base), &strip(&back), String::new()) { println!("DIFF {d}"); shown += 1; }, Err(e) => { println!("ERR {e}\n{rendered}"); shown += 1; } }
    }
}

/// types-texts <cases.ndjson> <events.ndjson>: cases {id, rule, prog (AST), src}; the real checker's verdict on src
/// (taken three times) is recorded as a Types event (the AST is the one the text was rendered from)
pub fn cmd_texts(args: &[String]) {
    quiet_panics();
    let mut w = writer(&args[1]);
    for line in read_lines(&args[0]) {
        let c: Value = serde_json::from_str(&line).unwrap();
        let src = c["src"].as_str().unwrap_or("");
        let (mut accepted, mut panic, mut msg) = (false, false, String::new());
        for _ in 0..3 {
            match guarded(|| garble_lang::check(src).map(|_| ())) {
                Ok(Ok(())) => accepted = true,
                Ok(Err(e)) => msg = e.prettify(src).chars().take(200).collect(),
                Err(m) => { panic = true; msg = m; }
            }
        }
        // an accepted program is also compiled: a compiler panic on an accepted program is recorded
        let mut compile_panic = String::new();
        if accepted { if let Err(m) = guarded(|| garble_lang::compile(src).map(|_| ())) { compile_panic = m; } }
        emit(&mut w, &json!({"ev":"Types","id":c["id"],"rule":c["rule"],"base":false,"prog":c["prog"],"accepted":accepted,"panic":panic,"roundtrip":true,"src":src,"msg":msg,"compile_panic":compile_panic}));
    }
}
