//! Recording of `Eval` events: compile a program in the four configurations, evaluate it on
//! argument tuples, log program projection, arguments, input bits and output bits.
use crate::circ::bits_to_json;
use crate::proj::Proj;
use crate::util::*;
use garble_lang::ast::{Type, Variant};
use garble_lang::literal::{Literal, VariantLiteral};
use garble_lang::token::{SignedNumType, UnsignedNumType};
use garble_lang::{compile_with_options, CircuitKind, CompileOptions, GarbleProgram, TypedProgram};
use serde_json::{json, Value};

pub const CFGS: [(&str, bool, bool); 4] = [("ssa_on", false, true), ("reg_on", true, true), ("ssa_off", false, false), ("reg_off", true, false)];

pub fn compile4(src: &str) -> Result<Vec<GarbleProgram>, String> {
    let mut v = vec![];
    for (name, reg, dedup) in CFGS {
        let opts = CompileOptions { circuit_kind: if reg { CircuitKind::Register } else { CircuitKind::Ssa }, optimize_duplicate_gates: dedup, ..Default::default() };
        match guarded(|| compile_with_options(src, opts)) {
            Ok(Ok(p)) => v.push(p),
            Ok(Err(e)) => return Err(format!("{name}: compile error: {}", e.prettify(src))),
            Err(m) => return Err(format!("{name}: compiler panic: {m}")),
        }
    }
    Ok(v)
}

pub fn value_to_literal(prg: &TypedProgram, ty: &Type, v: &Value) -> Literal {
    match ty {
        Type::Bool => if v.as_i64().unwrap() == 1 { Literal::True } else { Literal::False },
        Type::Unsigned(t) => Literal::NumUnsigned(v.as_u64().unwrap(), *t),
        Type::Signed(t) => Literal::NumSigned(v.as_i64().unwrap(), *t),
        Type::Array(e, _) => Literal::Array(v.as_array().unwrap().iter().map(|x| value_to_literal(prg, e, x)).collect()),
        Type::Tuple(fs) => Literal::Tuple(fs.iter().zip(v.as_array().unwrap()).map(|(t, x)| value_to_literal(prg, t, x)).collect()),
        Type::Struct(name) => {
            let def = &prg.struct_defs[name];
            Literal::Struct(name.clone(), def.fields.iter().zip(v.as_array().unwrap()).map(|((n, t), x)| (n.clone(), value_to_literal(prg, t, x))).collect())
        }
        Type::Enum(name) => {
            let def = &prg.enum_defs[name];
            let tag = v["tag"].as_u64().unwrap() as usize;
            match &def.variants[tag] {
                Variant::Unit(vn) => Literal::Enum(name.clone(), vn.clone(), VariantLiteral::Unit),
                Variant::Tuple(vn, ts) => Literal::Enum(name.clone(), vn.clone(), VariantLiteral::Tuple(ts.iter().zip(v["f"].as_array().unwrap()).map(|(t, x)| value_to_literal(prg, t, x)).collect())),
            }
        }
        t => panic!("value_to_literal: unsupported type {t}"),
    }
}

/// integer literals occurring in the source text, with their type suffix (boundary-directed inputs)
pub fn source_constants(src: &str) -> Vec<(i128, String)> {
    let mut out = vec![];
    let b = src.as_bytes();
    let mut i = 0;
    while i < b.len() {
        if b[i].is_ascii_digit() && (i == 0 || !(b[i - 1].is_ascii_alphanumeric() || b[i - 1] == b'_')) {
            let st = i;
            while i < b.len() && b[i].is_ascii_digit() { i += 1; }
            let sfx_start = i;
            while i < b.len() && b[i].is_ascii_alphanumeric() { i += 1; }
            if let Ok(v) = src[st..sfx_start].parse::<i128>() {
                let neg = st > 0 && b[st - 1] == b'-';
                out.push((if neg { -v } else { v }, src[sfx_start..i].to_string()));
            }
        } else { i += 1; }
    }
    out.sort(); out.dedup();
    out
}

thread_local! { static CONSTS: std::cell::RefCell<Vec<(i128, String)>> = std::cell::RefCell::new(vec![]); }
pub fn set_constants(c: Vec<(i128, String)>) { CONSTS.with(|x| *x.borrow_mut() = c); }

fn rand_int(rng: &mut Rng, min: i128, max: i128, wide: bool, tyname: &str) -> i128 {
    // one time in two: a constant of the same type from the program text, or a neighbour of it
    let pick = CONSTS.with(|x| {
        let c = x.borrow();
        let same: Vec<i128> = c.iter().filter(|(_, s)| s == tyname).map(|(v, _)| *v).collect();
        if !same.is_empty() && rng.chance(1, 2) { Some(same[rng.below(same.len())] + (rng.below(3) as i128 - 1)) } else { None }
    });
    if let Some(v) = pick { let lim = if wide { 1i128 << 29 } else { i128::MAX }; if v >= min && v <= max && v.abs() < lim { return v; } }
    // boundary-biased; for wide types only small magnitudes (the model's limit)
    let (lo, hi) = if wide { (min.max(-1000), max.min(1000)) } else { (min, max) };
    match rng.below(10) {
        0 => lo, 1 => hi, 2 => 0.max(lo), 3 => 1.min(hi), 4 => (lo + 1).min(hi), 5 => (hi - 1).max(lo),
        6 => { let m = (lo + hi) / 2; m }
        7 => { let m = (lo + hi) / 2 + 1; m.min(hi) }
        _ => lo + (rng.next() as i128).rem_euclid(hi - lo + 1),
    }
}

/// a random value of the type, None if the type is outside what the recorder supports
pub fn gen_value(prg: &TypedProgram, ty: &Type, rng: &mut Rng) -> Option<Value> {
    Some(match ty {
        Type::Bool => json!(rng.below(2)),
        Type::Unsigned(t) => {
            let (max, wide) = match t { UnsignedNumType::U8 => (255, false), UnsignedNumType::U16 => (65535, false), UnsignedNumType::Unspecified => return None, _ => (1i128 << 31, true) };
            json!(rand_int(rng, 0, max, wide, crate::proj::uty(t)) as i64)
        }
        Type::Signed(t) => {
            let (min, max, wide) = match t { SignedNumType::I8 => (-128, 127, false), SignedNumType::I16 => (-32768, 32767, false), SignedNumType::Unspecified => return None, _ => (-(1i128 << 31), 1i128 << 31, true) };
            json!(rand_int(rng, min, max, wide, crate::proj::sty(t)) as i64)
        }
        Type::Array(e, n) => { let mut v = vec![]; for _ in 0..*n { v.push(gen_value(prg, e, rng)?); } Value::Array(v) }
        Type::Tuple(fs) => { let mut v = vec![]; for f in fs { v.push(gen_value(prg, f, rng)?); } Value::Array(v) }
        Type::Struct(name) => { let def = prg.struct_defs.get(name)?; let mut v = vec![]; for (_, t) in def.fields.iter() { v.push(gen_value(prg, t, rng)?); } Value::Array(v) }
        Type::Enum(name) => {
            let def = prg.enum_defs.get(name)?;
            let tag = rng.below(def.variants.len());
            let mut f = vec![];
            if let Variant::Tuple(_, ts) = &def.variants[tag] { for t in ts { f.push(gen_value(prg, t, rng)?); } }
            json!({"tag": tag, "f": f})
        }
        _ => return None,
    })
}

/// Builds the Eval event for a source text; `inputs` = explicit argument tuples (JSON values),
/// or None to generate `nruns` random tuples.
pub fn eval_event(id: &str, src: &str, inputs: Option<&Vec<Value>>, nruns: usize, rng: &mut Rng) -> Value {
    let progs = match compile4(src) { Ok(p) => p, Err(m) => return json!({"ev":"CompileFail","id":id,"src":src,"msg":m}) };
    let p0 = &progs[0];
    if p0.main.params.is_empty() { return json!({"ev":"Skip","id":id,"why":"no params"}); }
    // a single array parameter is split into one party per element: the recorder feeds elements
    let single_array = p0.main.params.len() == 1 && matches!(p0.main.params[0].ty, Type::Array(_, _));
    let mut pr = Proj::new(&p0.program, &p0.const_sizes);
    let prog = pr.program("main");
    let ptys: Vec<Value> = p0.main.params.iter().map(|p| pr.ty(&p.ty)).collect();
    let ret = pr.ty(&p0.main.ty);
    if !pr.oom.is_empty() { return json!({"ev":"Skip","id":id,"why":format!("outside the model: {}", pr.oom[0])}); }
    set_constants(source_constants(src));
    let mut tuples: Vec<Vec<Value>> = vec![];
    match inputs {
        Some(list) => for t in list { tuples.push(t.as_array().unwrap().clone()); },
        None => for _ in 0..nruns {
            let mut t = vec![];
            for p in p0.main.params.iter() { match gen_value(&p0.program, &p.ty, rng) { Some(v) => t.push(v), None => return json!({"ev":"Skip","id":id,"why":"unsupported parameter type"}) } }
            tuples.push(t);
        },
    }
    let mut runs = vec![];
    for t in tuples {
        let mut in_bits: Vec<Vec<bool>> = vec![];
        let mut lit_err = None;
        for (i, p) in p0.main.params.iter().enumerate() {
            let lit = value_to_literal(&p0.program, &p.ty, &t[i]);
            match guarded(|| p0.literal_arg(i, lit.clone()).map(|a| a.as_bits())) {
                Ok(Ok(b)) => in_bits.push(b),
                Ok(Err(e)) => { lit_err = Some(format!("literal_arg refused {lit}: {e}")); break; }
                Err(m) => { lit_err = Some(format!("literal_arg/as_bits panicked on {lit}: {m}")); break; }
            }
        }
        if let Some(m) = lit_err { runs.push(json!({"args": t, "lit_err": m})); continue; }
        // what the circuit is fed: per party
        let parties: Vec<Vec<bool>> = if single_array {
            let n = match &p0.main.params[0].ty { Type::Array(_, n) => *n, _ => 1 };
            if n == 0 { vec![] } else { let per = in_bits[0].len() / n; in_bits[0].chunks(per.max(1)).map(|c| c.to_vec()).collect() }
        } else { in_bits.clone() };
        let mut outs = serde_json::Map::new();
        for (k, (name, _, _)) in CFGS.iter().enumerate() {
            let c = progs[k].circuit.clone();
            let inp = parties.clone();
            let o = match guarded(move || c.eval(&inp)) { Ok(o) => bits_to_json(&o), Err(m) => json!([9, m]) };
            outs.insert(name.to_string(), o);
        }
        runs.push(json!({"args": t, "in_bits": in_bits.iter().map(|b| bits_to_json(b)).collect::<Vec<_>>(), "outs": outs}));
    }
    json!({"ev":"Eval","id":id,"src":src,"prog":prog,"ptys":ptys,"ret":ret,"runs":runs})
}

/// eval-corpus <corpus dir> <out.ndjson> <max programs> <runs per program>
pub fn cmd_eval_corpus(args: &[String]) {
    quiet_panics();
    let mut rng = Rng::new(seed_from_env() ^ 0xE7A1);
    let mut w = writer(&args[1]);
    let maxn: usize = args[2].parse().unwrap();
    let nruns: usize = args[3].parse().unwrap();
    let max_gates: usize = std::env::var("VERIF_MAX_GATES").ok().and_then(|s| s.parse().ok()).unwrap_or(30000);
    let mut n = 0;
    for (f, src) in crate::corpus::good_programs(&args[0]) {
        if n >= maxn { break; }
        if let Ok(Ok(p)) = guarded(|| garble_lang::compile(&src)) { if p.circuit.ops() > max_gates { continue; } } else { continue; }
        let ev = eval_event(&f, &src, None, nruns, &mut rng);
        if ev["ev"] == "Eval" { n += 1; }
        emit(&mut w, &ev);
    }
}

/// eval-file <cases.ndjson> <out.ndjson>: cases are {id, src, inputs:[[values]]}
pub fn cmd_eval_file(args: &[String]) {
    quiet_panics();
    let mut rng = Rng::new(seed_from_env());
    let mut w = writer(&args[1]);
    for line in read_lines(&args[0]) {
        let c: Value = serde_json::from_str(&line).unwrap();
        let inputs = c.get("inputs").and_then(|x| x.as_array()).cloned();
        let ev = eval_event(c["id"].as_str().unwrap_or("?"), c["src"].as_str().unwrap(), inputs.as_ref(), 8, &mut rng);
        emit(&mut w, &ev);
    }
}

/// eval-gen <out.ndjson> <programs> <runs per program> <profile: default|panic|mutation>
pub fn cmd_eval_gen(args: &[String]) {
    quiet_panics();
    let seed = seed_from_env();
    let mut w = writer(&args[0]);
    let n: usize = args[1].parse().unwrap();
    let nruns: usize = args[2].parse().unwrap();
    let profile = match args[3].as_str() { "panic" => crate::pgen::Profile::PanicDense, "mutation" => crate::pgen::Profile::Mutation, _ => crate::pgen::Profile::Default };
    let effects = args.get(4).map(|s| s == "effects").unwrap_or(false);
    let max_gates: usize = std::env::var("VERIF_MAX_GATES").ok().and_then(|s| s.parse().ok()).unwrap_or(60000);
    let mut made = 0;
    let mut k: u64 = 0;
    while made < n && k < 20 * n as u64 {
        k += 1;
        let mut rng = Rng::new(seed.wrapping_mul(1_000_003).wrapping_add(k) ^ (args[3].len() as u64) << 40);
        let src = { let mut g = crate::pgen::Gen::new(&mut rng, profile); g.effects_in_exprs = effects; g.program() };
        // keep circuits small enough to evaluate quickly
        match guarded(|| garble_lang::compile(&src)) {
            Ok(Ok(p)) => if p.circuit.ops() > max_gates { continue; },
            _ => {}
        }
        let ev = eval_event(&format!("gen-{}-{seed}-{k}", args[3]), &src, None, nruns, &mut rng);
        if ev["ev"] == "Eval" { made += 1; }
        emit(&mut w, &ev);
    }
}
