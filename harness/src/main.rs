#![allow(dead_code)]
mod c03;
mod c04;
mod c05;
mod c06;
mod c07;
mod c08;
mod c09;
mod c10;
mod c11;
mod c12;
mod c13;
mod c16;
mod c17;
mod printer;
mod circ;
mod corpus;
mod evalrec;
mod pgen;
mod proj;
mod util;

fn main() {
    let args: Vec<String> = std::env::args().collect();
    if args.len() < 2 {
        eprintln!("usage: verif_harness <cmd> ...");
        std::process::exit(2);
    }
    let rest = &args[2..];
    match args[1].as_str() {
        "reg-convert" => c10::cmd_convert(rest),
        "reg-convert-corpus" => c10::cmd_convert_corpus(rest),
        "builder-replay" => c04::cmd_replay(rest),
        "builder-record" => c04::cmd_record(rest),
        "shape-compile" => c04::cmd_shape_compile(rest),
        "onoff" => c04::cmd_onoff(rest),
        "intops-replay" => c03::cmd_replay(rest),
        "intops-record" => c03::cmd_record(rest),
        "eval-corpus" => evalrec::cmd_eval_corpus(rest),
        "eval-gen" => evalrec::cmd_eval_gen(rest),
        "eval-file" => evalrec::cmd_eval_file(rest),
        "bitonic-direct" => c13::cmd_direct(rest),
        "join-record" => c13::cmd_record(rest),
        "bristol-roundtrip" => c11::cmd_roundtrip(rest),
        "bristol-corpus" => c11::cmd_corpus(rest),
        "bristol-mutate" => c11::cmd_mutate(rest),
        "literals-replay" => c09::cmd_replay(rest),
        "session-replay" => c09::cmd_session_replay(rest),
        "arms-replay" => c08::cmd_replay(rest),
        "consts-replay" => c12::cmd_replay(rest),
        "determinism" => c06::cmd_determinism(rest),
        "frontend-batch" => c07::cmd_batch(rest),
        "frontend-run" => c07::cmd_run(rest),
        "tokens-debug" => c07::cmd_tokens_debug(rest),
        "shape5-files" => c05::cmd_files(rest),
        "shape5-record" => c05::cmd_record(rest),
        "types-texts" => c17::cmd_texts(rest),
        "types-mutants" => c17::cmd_mutants(rest),
        "printer-debug" => c17::cmd_printer_debug(rest),
        "c16-replay" => c16::cmd_replay(rest),
        "c16-products" => c16::cmd_products(rest),
        "compile-one" => corpus::cmd_compile_one(rest),
        "corpus-classify" => corpus::cmd_classify(rest),
        c => {
            eprintln!("unknown command {c}");
            std::process::exit(2);
        }
    }
}
