//! C06: repeated compilations of the same source; one event per compilation with a digest of the
//! whole circuit (party sizes, gates in order, output wires).
use crate::util::*;
use garble_lang::circuit::Gate;
use garble_lang::{compile_with_options, CircuitKind, CompileOptions};
use serde_json::json;

fn digest(c: &garble_lang::circuit::Circuit) -> String {
    // FNV-1a over the full description
    let mut h: u64 = 0xcbf29ce484222325;
    let mut feed = |x: u64| { for b in x.to_le_bytes() { h ^= b as u64; h = h.wrapping_mul(0x100000001b3); } };
    feed(c.input_gates.len() as u64);
    for g in &c.input_gates { feed(*g as u64); }
    feed(c.gates.len() as u64);
    for g in &c.gates { match g { Gate::Xor(a, b) => { feed(1); feed(*a as u64); feed(*b as u64); } Gate::And(a, b) => { feed(2); feed(*a as u64); feed(*b as u64); } Gate::Not(a) => { feed(3); feed(*a as u64); } } }
    feed(c.output_gates.len() as u64);
    for o in &c.output_gates { feed(*o as u64); }
    format!("{h:016x}:{}", c.gates.len())
}

fn compile_digest(src: &str, dedup: bool) -> String {
    let opts = CompileOptions { optimize_duplicate_gates: dedup, circuit_kind: CircuitKind::Ssa, ..Default::default() };
    match guarded(|| compile_with_options(src, opts)) {
        Ok(Ok(p)) => digest(p.circuit.unwrap_ssa_ref()),
        Ok(Err(e)) => format!("error:{}", format!("{e:?}").len()),
        Err(m) => format!("panic:{m}"),
    }
}

/// determinism <corpus dir> <shapes dir> <out.ndjson> <generated programs> <repeats> [process tag]
pub fn cmd_determinism(args: &[String]) {
    quiet_panics();
    let mut w = writer(&args[2]);
    let ngen: usize = args[3].parse().unwrap();
    let reps: usize = args[4].parse().unwrap();
    let tag = args.get(5).cloned().unwrap_or_else(|| "p0".into());
    let seed = seed_from_env();
    let mut progs: Vec<(String, String)> = vec![];
    let mut fs: Vec<_> = std::fs::read_dir(&args[1]).unwrap().map(|e| e.unwrap().path()).filter(|p| p.to_string_lossy().ends_with(".garble.rs")).collect();
    fs.sort();
    for p in fs { progs.push((p.file_name().unwrap().to_string_lossy().to_string(), std::fs::read_to_string(&p).unwrap())); }
    for (f, src) in crate::corpus::good_programs(&args[0]) { if src.len() < 6000 { progs.push((f, src)); } }
    for k in 0..ngen {
        let mut rng = Rng::new(seed.wrapping_mul(7919).wrapping_add(k as u64));
        let profile = match k % 3 { 0 => crate::pgen::Profile::Mutation, 1 => crate::pgen::Profile::PanicDense, _ => crate::pgen::Profile::Default };
        let src = { let mut g = crate::pgen::Gen::new(&mut rng, profile); g.program() };
        progs.push((format!("gen-{seed}-{k}"), src));
    }
    for (name, src) in progs.iter() {
        // skip very large circuits (time)
        for dedup in [true, false] {
            for r in 0..reps {
                // compile in a fresh thread: the per-thread hash keys differ as well
                let s2 = src.clone();
                let d = std::thread::spawn(move || { quiet_panics(); compile_digest(&s2, dedup) }).join().unwrap_or_else(|_| "thread-panic".into());
                emit(&mut w, &json!({"key": format!("{name}|dedup={dedup}"), "run": format!("{tag}-{r}"), "digest": d}));
                if d.starts_with("error") { break; }
            }
        }
    }
}
