//! C13: join_iter / join programs on TLC-enumerated key sets, and the bitonic networks driven
//! directly through the verif_hooks wrapper.
use crate::circ::bits_to_json;
use crate::evalrec::{eval_event, value_to_literal};
use crate::proj::Proj;
use crate::util::*;
use garble_lang::verif_hooks::Builder;
use serde_json::{json, Value};

/// bitonic-direct <cases.ndjson> <results.ndjson>: cases {kind: sort|merge, s:[0/1..], expect:[..]}
pub fn cmd_direct(args: &[String]) {
    quiet_panics();
    let mut w = writer(&args[1]);
    let (mut n, mut bad) = (0u64, 0u64);
    for line in read_lines(&args[0]) {
        let c: Value = serde_json::from_str(&line).unwrap();
        let s: Vec<bool> = c["s"].as_array().unwrap().iter().map(|x| x.as_u64().unwrap() == 1).collect();
        let expect: Vec<bool> = c["expect"].as_array().unwrap().iter().map(|x| x.as_u64().unwrap() == 1).collect();
        let kind = c["kind"].as_str().unwrap().to_string();
        n += 1;
        let len = s.len();
        let s2 = s.clone();
        let r = guarded(move || {
            let mut b = Builder::new(vec![len], true);
            let mut elems: Vec<Vec<usize>> = (0..len).map(|i| vec![2 + i]).collect();
            if kind == "sort" { b.push_bitonic_sorter(1, &mut elems); } else { b.push_bitonic_merger(1, true, &mut elems); }
            let outs: Vec<usize> = elems.iter().map(|e| e[0]).collect();
            let circ = b.build(outs);
            let o = circ.eval(&[s2]);
            o[161..].to_vec()
        });
        match r {
            Ok(o) if o == expect => {}
            Ok(o) => { bad += 1; emit(&mut w, &json!({"bad": true, "case": c, "observed": bits_to_json(&o)})); }
            Err(m) => { bad += 1; emit(&mut w, &json!({"bad": true, "case": c, "observed": m})); }
        }
    }
    emit(&mut w, &json!({"summary": true, "n": n, "bad": bad}));
}

fn key_lit(kt: &str, k: u64) -> (String, Value) {
    match kt {
        "u8" => (format!("{k}u8"), json!(k)),
        "u16" => (format!("{}u16", k * 257), json!(k * 257)),
        "tup" => (format!("({}u8, {}u8)", k / 2, k % 2), json!([k / 2, k % 2])),
        _ => (format!("[{}u8, {}u8]", k / 2, k % 2), json!([k / 2, k % 2])),
    }
}
fn key_ty(kt: &str) -> &'static str { match kt { "u8" => "u8", "u16" => "u16", "tup" => "(u8, u8)", _ => "[u8; 2]" } }

fn iter_program(n: usize, m: usize, kt: &str) -> String {
    let k = key_ty(kt);
    let mn = n.min(m);
    format!("pub fn main(a: [({k}, u8); {n}], b: [({k}, u16, bool); {m}]) -> ([(u8, u16); {mn}], u8, {k}) {{\n    let mut out = [(0u8, 0u16); {mn}];\n    let mut cnt = 0u8;\n    let mut last = a[0].0;\n    for ((ka, pa), (kb, pb, fb)) in join_iter(a, b) {{\n        let q = 200u8 / pa;\n        out[cnt as usize] = (q, pb);\n        cnt = cnt + 1u8;\n        last = kb;\n    }}\n    (out, cnt, last)\n}}\n")
}

/// join-record <cases.ndjson> <eval_events.ndjson> <join_events.ndjson> <key types, comma separated>
pub fn cmd_record(args: &[String]) {
    quiet_panics();
    let mut rng = Rng::new(seed_from_env() ^ 0xC13);
    let mut we = writer(&args[1]);
    let mut wj = writer(&args[2]);
    let kts: Vec<&str> = args[3].split(',').collect();
    let mut case_no = 0usize;
    for line in read_lines(&args[0]) {
        let c: Value = serde_json::from_str(&line).unwrap();
        let ka: Vec<u64> = c["ka"].as_array().unwrap().iter().map(|x| x.as_u64().unwrap()).collect();
        let kb: Vec<u64> = c["kb"].as_array().unwrap().iter().map(|x| x.as_u64().unwrap()).collect();
        let (n, m) = (ka.len(), kb.len());
        case_no += 1;
        let kt = kts[case_no % kts.len()];
        if c["kind"] == "join" {
            // for-join loop: payloads chosen so that some are 0 (division by the payload fails only for joined rows)
            let a: Vec<Value> = ka.iter().enumerate().map(|(i, k)| json!([key_lit(kt, *k).1, ((i as u64 * 5 + *k) % 3)])).collect();
            let b: Vec<Value> = kb.iter().enumerate().map(|(j, k)| json!([key_lit(kt, *k).1, 1000 + j as u64 * 17 + *k, (j % 2)])).collect();
            let src = iter_program(n, m, kt);
            let inputs = vec![json!([a, b])];
            emit(&mut we, &eval_event(&format!("joiniter-{kt}-{n}x{m}-{case_no}"), &src, Some(&inputs), 0, &mut rng));
        }
        // join built-in, without associated data (duplicates within one side allowed) ...
        let k = key_ty(kt);
        for assoc in [false, true] {
            if assoc && c["kind"] == "joindup" { continue; } // with associated data the keys must be unique
            // a tuple element type always means "join with associated data": plain keys are never tuples
            let kt = if !assoc && kt == "tup" { "arr" } else { kt };
            let k = key_ty(kt);
            let (ea, eb, a_vals, b_vals): (String, String, Vec<Value>, Vec<Value>) = if assoc {
                // the widths of the associated data vary: first rows narrower, wider, and of another arity than the second rows
                match case_no % 3 {
                    0 => (format!("({k}, u8)"), format!("({k}, u16)"),
                          ka.iter().enumerate().map(|(i, x)| json!([key_lit(kt, *x).1, (i as u64 * 3 + 1) % 256])).collect(),
                          kb.iter().enumerate().map(|(j, x)| json!([key_lit(kt, *x).1, 500 + j as u64])).collect()),
                    1 => (format!("({k}, u16)"), format!("({k}, u8)"),
                          ka.iter().enumerate().map(|(i, x)| json!([key_lit(kt, *x).1, 40000 + i as u64 * 3])).collect(),
                          kb.iter().enumerate().map(|(j, x)| json!([key_lit(kt, *x).1, (j as u64 * 7 + 2) % 256])).collect()),
                    _ => (format!("({k}, u8, u16)"), format!("({k}, bool)"),
                          ka.iter().enumerate().map(|(i, x)| json!([key_lit(kt, *x).1, (i as u64 * 3 + 1) % 256, 300 + i as u64])).collect(),
                          kb.iter().enumerate().map(|(j, x)| json!([key_lit(kt, *x).1, (j % 2)])).collect()),
                }
            } else {
                (k.to_string(), k.to_string(), ka.iter().map(|x| key_lit(kt, *x).1).collect(), kb.iter().map(|x| key_lit(kt, *x).1).collect())
            };
            let ret_elem = if assoc { format!("(bool, {ea}, {eb})") } else { format!("(bool, {ea})") };
            let src = format!("pub fn main(a: [{ea}; {n}], b: [{eb}; {m}]) -> [{ret_elem}; const {{ {n}usize + {m}usize - 1usize }}] {{\n    join(a, b)\n}}\n");
            let ev = match guarded(|| garble_lang::compile(&src)) {
                Ok(Ok(p)) => {
                    let mut pr = Proj::new(&p.program, &p.const_sizes);
                    let prog = pr.program("main");
                    let (ta, tb) = (&p.main.params[0].ty, &p.main.params[1].ty);
                    let (eta, etb) = match (ta, tb) { (garble_lang::ast::Type::Array(x, _), garble_lang::ast::Type::Array(y, _)) => (pr.ty(x), pr.ty(y)), _ => (json!(null), json!(null)) };
                    let la = value_to_literal(&p.program, ta, &Value::Array(a_vals.clone()));
                    let lb = value_to_literal(&p.program, tb, &Value::Array(b_vals.clone()));
                    let ia = p.literal_arg(0, la).map(|x| x.as_bits());
                    let ib = p.literal_arg(1, lb).map(|x| x.as_bits());
                    match (ia, ib) {
                        (Ok(ia), Ok(ib)) => {
                            let circ = p.circuit.clone();
                            match guarded(move || circ.eval(&[ia, ib])) {
                                Ok(o) => json!({"ev":"Join","src":src,"prog":prog,"ea":eta,"eb":etb,"assoc":assoc,"a":a_vals,"b":b_vals,"out":bits_to_json(&o)}),
                                Err(mm) => json!({"ev":"JoinCrash","src":src,"msg":mm}),
                            }
                        }
                        _ => json!({"ev":"JoinCrash","src":src,"msg":"literal refused"}),
                    }
                }
                Ok(Err(e)) => json!({"ev":"JoinCrash","src":src,"msg":format!("compile error: {}", e.prettify(&src))}),
                Err(mm) => json!({"ev":"JoinCrash","src":src,"msg":format!("compiler panic: {mm}")}),
            };
            emit(&mut wj, &ev);
        }
    }
}
