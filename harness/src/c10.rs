//! C10: drive the real SSA -> register conversion and log what it produced.
use crate::circ::*;
use crate::util::*;
use garble_lang::register_circuit as rc;
use serde_json::{json, Value};

pub fn convert_event(ssa_json: &Value, rng: &mut Rng, max_all: usize, samples: usize) -> Value {
    let ssa = ssa_from_json(ssa_json);
    let n: usize = ssa.input_gates.iter().sum();
    match guarded(|| rc::Circuit::from(&ssa)) {
        Ok(reg) => {
            let validate_ok = matches!(guarded(|| reg.validate()), Ok(Ok(())));
            let all = n <= max_all;
            let mut assigns = vec![];
            if !all {
                for k in 0..samples {
                    let bits: Vec<bool> = (0..n).map(|_| match k { 0 => false, 1 => true, _ => rng.bool() }).collect();
                    assigns.push(bits_to_json(&bits));
                }
            }
            json!({"ev":"Convert","ssa":ssa_json,"reg":reg_to_json(&reg),"validate_ok":validate_ok,"all":all,"assigns":assigns})
        }
        Err(msg) => json!({"ev":"ConvertPanic","ssa":ssa_json,"panic":msg}),
    }
}

/// reg-convert <cases.ndjson> <out.ndjson>
pub fn cmd_convert(args: &[String]) {
    quiet_panics();
    let mut rng = Rng::new(seed_from_env());
    let mut w = writer(&args[1]);
    for line in read_lines(&args[0]) {
        let v: Value = serde_json::from_str(&line).unwrap();
        if v.get("ssa").is_some() {
            // case from the design model: circuit + the model's predicted result
            let mut ev = convert_event(&v["ssa"], &mut rng, 6, 8);
            let drift = ev.get("reg").map(|r| r != &v["model"]).unwrap_or(true);
            ev["drift"] = json!(drift);
            emit(&mut w, &ev);
        } else {
            emit(&mut w, &convert_event(&v, &mut rng, 6, 8));
        }
    }
}

/// reg-convert-corpus <corpus dir> <out.ndjson> <max programs>
pub fn cmd_convert_corpus(args: &[String]) {
    quiet_panics();
    let mut rng = Rng::new(seed_from_env());
    let mut w = writer(&args[1]);
    let maxn: usize = args[2].parse().unwrap();
    let max_gates: usize = std::env::var("VERIF_MAX_GATES").ok().and_then(|s| s.parse().ok()).unwrap_or(3000);
    let mut n = 0;
    for (_f, src) in crate::corpus::good_programs(&args[0]) {
        if n >= maxn { break; }
        let Ok(Ok(p)) = guarded(|| garble_lang::compile(&src)) else { continue };
        let ssa = p.circuit.unwrap_ssa_ref().clone();
        if ssa.gates.len() > max_gates { continue; }
        n += 1;
        emit(&mut w, &convert_event(&ssa_to_json(&ssa), &mut rng, 4, 4));
    }
}
