//! C04 / C15: drive the real CircuitBuilder through the verif_hooks wrapper.
use crate::circ::*;
use crate::util::*;
use garble_lang::verif_hooks::Builder;
use serde_json::{json, Value};
use std::collections::HashMap;

const PANIC_BITS: usize = 161;

fn assignment(nin: usize, k: usize) -> Vec<bool> {
    // input 0 is the most significant bit of k
    (0..nin).map(|i| (k >> (nin - 1 - i)) & 1 == 1).collect()
}

/// truth tables (one per output wire) of the circuit built from `b` with the given outputs
fn tables(b: &Builder, nin: usize, outs: &[usize]) -> Result<(Vec<Vec<u8>>, garble_lang::circuit::Circuit), String> {
    let bb = b.clone();
    let outs_v = outs.to_vec();
    let circ = guarded(move || bb.build(outs_v))?;
    let mut tts = vec![vec![0u8; 1 << nin]; outs.len()];
    for k in 0..(1usize << nin) {
        let c2 = circ.clone();
        let inp = vec![assignment(nin, k)];
        let o = guarded(move || c2.eval(&inp))?;
        if o.len() != PANIC_BITS + outs.len() {
            return Err(format!("output length {} != {}", o.len(), PANIC_BITS + outs.len()));
        }
        for (j, t) in tts.iter_mut().enumerate() {
            t[k] = o[PANIC_BITS + j] as u8;
        }
    }
    Ok((tts, circ))
}

fn apply(b: &mut Builder, op: &str, a: &[usize]) -> Vec<usize> {
    match op {
        "xor" => vec![b.push_xor(a[0], a[1])],
        "and" => vec![b.push_and(a[0], a[1])],
        "not" => vec![b.push_not(a[0])],
        "or" => vec![b.push_or(a[0], a[1])],
        "eq" => vec![b.push_eq(a[0], a[1])],
        "mux" => vec![b.push_mux(a[0], a[1], a[2])],
        "adder" => {
            let (s, c) = b.push_adder(a[0], a[1], a[2]);
            vec![s, c]
        }
        "condswap" => {
            let (x, y) = b.push_condswap(a[0], a[1], a[2]);
            vec![x, y]
        }
        o => panic!("unknown op {o}"),
    }
}

/// builder-replay <cases.ndjson> <results.ndjson>
/// Each case: {nin, cache, reqs:[{op,args(model wires),ws(model wires),tts}], ngates}.
pub fn cmd_replay(args: &[String]) {
    quiet_panics();
    let mut w = writer(&args[1]);
    let (mut n, mut drift, mut nontrivial) = (0u64, 0u64, 0u64);
    let mut shapes = writer(&args[2]);
    for line in read_lines(&args[0]) {
        let case: Value = serde_json::from_str(&line).unwrap();
        n += 1;
        let nin = case["nin"].as_u64().unwrap() as usize;
        let cache = case["cache"].as_bool().unwrap();
        let mut b = Builder::new(vec![nin], cache);
        let mut map: HashMap<usize, usize> = HashMap::new(); // model wire -> real wire
        for i in 0..(nin + 2) { map.insert(i, i); }
        let mut outs: Vec<usize> = vec![];
        let mut expected: Vec<Vec<u8>> = vec![];
        let mut case_drift = false;
        let mut failed: Option<String> = None;
        for r in case["reqs"].as_array().unwrap() {
            let op = r["op"].as_str().unwrap().to_string();
            let a: Vec<usize> = r["args"].as_array().unwrap().iter().map(|x| map[&(x.as_u64().unwrap() as usize)]).collect();
            let mut bb = b.clone();
            let op2 = op.clone();
            match guarded(move || { let ws = apply(&mut bb, &op2, &a); (bb, ws) }) {
                Ok((nb, ws)) => {
                    b = nb;
                    for (j, wr) in ws.iter().enumerate() {
                        let wm = r["ws"][j].as_u64().unwrap() as usize;
                        if wm != *wr { case_drift = true; }
                        map.entry(wm).or_insert(*wr);
                        outs.push(*wr);
                        expected.push(r["tts"][j].as_array().unwrap().iter().map(|x| x.as_u64().unwrap() as u8).collect());
                    }
                }
                Err(m) => { failed = Some(format!("builder panicked on {op}: {m}")); break; }
            }
        }
        if failed.is_none() {
            match tables(&b, nin, &outs) {
                Ok((tts, circ)) => {
                    if tts != expected {
                        failed = Some(format!("built circuit computes {:?}, literal execution {:?}", tts, expected));
                    }
                    if circ.gates.len() - 2 != case["ngates"].as_u64().unwrap() as usize && false { case_drift = true; }
                    if circ.gates.len() > 2 { nontrivial += 1; }
                    // the built circuit is judged for shape (C15) by Trace_Shape.tla
                    emit(&mut shapes, &json!({"ev":"Built","dedup":cache,"c":ssa_to_json(&circ)}));
                }
                Err(m) => failed = Some(format!("build/eval failed: {m}")),
            }
        }
        if case_drift { drift += 1; }
        if let Some(m) = failed {
            emit(&mut w, &json!({"bad": true, "case": case, "observed": m}));
        }
    }
    emit(&mut w, &json!({"summary": true, "n": n, "drift": drift, "nontrivial": nontrivial}));
}

/// builder-record <out.ndjson> <nseq> <minlen> <maxlen>: random request sequences through the real builder
pub fn cmd_record(args: &[String]) {
    quiet_panics();
    let mut rng = Rng::new(seed_from_env() ^ 0xC04);
    let mut w = writer(&args[0]);
    let nseq: usize = args[1].parse().unwrap();
    let minlen: usize = args[2].parse().unwrap();
    let maxlen: usize = args[3].parse().unwrap();
    let mut shapes = writer(&args[4]);
    let ops = ["xor", "and", "not", "or", "eq", "mux", "adder", "condswap", "xor", "and"];
    for s in 0..nseq {
        let nin = 2 + rng.below(3); // 2..4 inputs
        let cache = rng.chance(3, 4);
        let mut b = Builder::new(vec![nin], cache);
        let len = minlen + rng.below(maxlen - minlen + 1);
        // ids: 0,1 consts; 2.. inputs; then responses
        let mut wires: Vec<usize> = (0..nin + 2).collect();
        let mut events: Vec<Value> = vec![json!({"ev":"New","seq":s,"nin":nin,"cache":cache})];
        let mut resp_wires: Vec<usize> = vec![];
        let mut ok = true;
        for _ in 0..len {
            let op = *rng.pick(&ops);
            let arity = match op { "not" => 1, "mux" | "adder" | "condswap" => 3, _ => 2 };
            let mut ids = vec![];
            for _ in 0..arity {
                // bias towards recent results
                let id = if wires.len() > nin + 2 && rng.chance(2, 3) {
                    let span = (wires.len() - (nin + 2)).min(6);
                    wires.len() - 1 - rng.below(span)
                } else { rng.below(wires.len()) };
                ids.push(id);
            }
            let a: Vec<usize> = ids.iter().map(|i| wires[*i]).collect();
            let mut bb = b.clone();
            let op2 = op.to_string();
            match guarded(move || { let ws = apply(&mut bb, &op2, &a); (bb, ws) }) {
                Ok((nb, ws)) => {
                    b = nb;
                    events.push(json!({"ev":"Req","op":op,"args":ids,"n":ws.len(),"outs":[]}));
                    for wr in ws { wires.push(wr); resp_wires.push(wr); }
                }
                Err(m) => { events.push(json!({"ev":"BuilderPanic","op":op,"args":ids,"msg":m})); ok = false; break; }
            }
        }
        // observe: truth tables of all responses from one probe build
        match tables(&b, nin, &resp_wires) {
            Ok((tts, circ)) => {
                let mut k = 0;
                for e in events.iter_mut() {
                    if e["ev"] == "Req" {
                        let n = e["n"].as_u64().unwrap() as usize;
                        e["outs"] = json!(tts[k..k + n].to_vec());
                        k += n;
                    }
                }
                if circ.gates.len() <= 400 {
                    emit(&mut shapes, &json!({"ev":"Built","dedup":cache,"c":ssa_to_json(&circ)}));
                }
            }
            Err(m) => { events.push(json!({"ev":"BuildPanic","msg":m})); ok = false; }
        }
        let _ = ok;
        for e in events { emit(&mut w, &e); }
    }
}

/// shape-compile <dir> <out.ndjson> <max programs> <movement 0|1> <max gates>
pub fn cmd_shape_compile(args: &[String]) {
    quiet_panics();
    let mut w = writer(&args[1]);
    let maxn: usize = args[2].parse().unwrap();
    let movement = args[3] == "1";
    let max_gates: usize = args[4].parse().unwrap();
    let progs: Vec<(String, String)> = if movement {
        let mut fs: Vec<_> = std::fs::read_dir(&args[0]).unwrap().map(|e| e.unwrap().path()).filter(|p| p.to_string_lossy().ends_with(".garble.rs")).collect();
        fs.sort();
        fs.into_iter().map(|p| (p.file_name().unwrap().to_string_lossy().to_string(), std::fs::read_to_string(&p).unwrap())).collect()
    } else { crate::corpus::good_programs(&args[0]) };
    let mut n = 0;
    for (f, src) in progs {
        if n >= maxn { break; }
        let mut any = false;
        for dedup in [true, false] {
            let opts = garble_lang::CompileOptions { optimize_duplicate_gates: dedup, ..Default::default() };
            match guarded(|| garble_lang::compile_with_options(&src, opts)) {
                Ok(Ok(p)) => {
                    let c = p.circuit.unwrap_ssa_ref();
                    if c.gates.len() <= max_gates {
                        any = true;
                        emit(&mut w, &json!({"ev":"Built","file":f,"dedup":dedup,"movement":movement,"c":ssa_to_json(c)}));
                    }
                }
                Ok(Err(e)) => { if movement { emit(&mut w, &json!({"ev":"CompileError","file":f,"err":format!("{e:?}")})); } }
                Err(m) => emit(&mut w, &json!({"ev":"CompilePanic","file":f,"msg":m})),
            }
        }
        if any { n += 1; }
    }
}

/// onoff <corpus dir> <out.ndjson> <max programs>
pub fn cmd_onoff(args: &[String]) {
    quiet_panics();
    let mut rng = Rng::new(seed_from_env() ^ 0x0FF);
    let mut w = writer(&args[1]);
    let maxn: usize = args[2].parse().unwrap();
    let mut n = 0;
    for (f, src) in crate::corpus::good_programs(&args[0]) {
        if n >= maxn { break; }
        let mut circs = vec![];
        for (dedup, kind) in [(true, garble_lang::CircuitKind::Ssa), (true, garble_lang::CircuitKind::Register), (false, garble_lang::CircuitKind::Ssa), (false, garble_lang::CircuitKind::Register)] {
            let opts = garble_lang::CompileOptions { optimize_duplicate_gates: dedup, circuit_kind: kind, ..Default::default() };
            match guarded(|| garble_lang::compile_with_options(&src, opts)) {
                Ok(Ok(p)) => circs.push(p.circuit),
                _ => {}
            }
        }
        if circs.len() != 4 { continue; }
        if circs[0].ops() > 20000 { continue; }
        n += 1;
        let sizes: Vec<usize> = circs[0].input_lengths().collect();
        let mut runs = vec![];
        for k in 0..8 {
            let inp: Vec<Vec<bool>> = sizes.iter().map(|s| (0..*s).map(|_| match k { 0 => false, 1 => true, _ => rng.bool() }).collect()).collect();
            let outs: Vec<Value> = circs.iter().map(|c| { let c2 = c.clone(); let i2 = inp.clone(); match guarded(move || c2.eval(&i2)) { Ok(o) => bits_to_json(&o), Err(m) => json!(format!("panic: {m}")) } }).collect();
            runs.push(json!({"input": inp.iter().map(|p| bits_to_json(p)).collect::<Vec<_>>(), "on_ssa": outs[0], "on_reg": outs[1], "off_ssa": outs[2], "off_reg": outs[3]}));
        }
        emit(&mut w, &json!({"ev":"OnOff","file":f,"runs":runs}));
    }
}
