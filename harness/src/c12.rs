//! C12: const programs emitted by Gen_Consts.tla compiled with supplied constants.
use crate::util::*;
use garble_lang::compile::CompilerError;
use garble_lang::literal::Literal;
use garble_lang::token::{SignedNumType, UnsignedNumType};
use garble_lang::{compile, compile_with_constants, CompileTimeError, Error};
use serde_json::{json, Value};
use std::collections::HashMap;

fn lit_src(t: &str, v: i64) -> String { if t == "bool" { (v != 0).to_string() } else { format!("{v}{t}") } }
fn expr_src(t: &str, e: &Value) -> String {
    match e["k"].as_str().unwrap() {
        "lit" => lit_src(t, e["v"].as_i64().unwrap()),
        "ext" => format!("{}::{}", e["party"].as_str().unwrap(), e["id"].as_str().unwrap()),
        "ref" => e["n"].as_str().unwrap().to_string(),
        "add" => format!("{} + {}", expr_src(t, &e["l"]), expr_src(t, &e["r"])),
        "sub" => format!("{} - {}", expr_src(t, &e["l"]), expr_src(t, &e["r"])),
        k @ ("max" | "min") => format!("{k}({})", e["args"].as_array().unwrap().iter().map(|a| expr_src(t, a)).collect::<Vec<_>>().join(", ")),
        k => panic!("const expr {k}"),
    }
}
fn literal(t: &str, v: i64) -> Literal {
    match t {
        "bool" => if v != 0 { Literal::True } else { Literal::False },
        "u8" => Literal::NumUnsigned(v as u64, UnsignedNumType::U8),
        "u16" => Literal::NumUnsigned(v as u64, UnsignedNumType::U16),
        "usize" => Literal::NumUnsigned(v as u64, UnsignedNumType::Usize),
        "i8" => Literal::NumSigned(v, SignedNumType::I8),
        "i16" => Literal::NumSigned(v, SignedNumType::I16),
        _ => panic!("type {t}"),
    }
}
/// a literal of a different type carrying (about) the same number
fn mistyped(t: &str, v: i64) -> Literal {
    match t { "u8" | "usize" => Literal::NumUnsigned(v.unsigned_abs() % 200, UnsignedNumType::U16), "u16" => Literal::NumUnsigned(v.unsigned_abs() % 200, UnsignedNumType::U8), "i8" => Literal::NumSigned(v, SignedNumType::I16), _ => Literal::NumUnsigned(v.unsigned_abs() % 100, UnsignedNumType::U8) }
}
fn nbits(t: &str) -> usize { match t { "bool" => 1, "u8" | "i8" => 8, "u16" | "i16" => 16, _ => 32 } }
fn to_bits(v: i64, n: usize) -> Vec<bool> { (0..n).map(|i| (v >> (n - 1 - i)) & 1 == 1).collect() }

/// consts-replay <cases.ndjson> <results.ndjson>
pub fn cmd_replay(args: &[String]) {
    quiet_panics();
    let mut w = writer(&args[1]);
    let (mut n, mut bad, mut nontrivial) = (0u64, 0u64, 0u64);
    for line in read_lines(&args[0]) {
        let c: Value = serde_json::from_str(&line).unwrap();
        n += 1;
        let t = c["ty"].as_str().unwrap();
        let decls = c["decls"].as_array().unwrap();
        let names: Vec<&str> = decls.iter().map(|d| d["n"].as_str().unwrap()).collect();
        let decl_src: String = decls.iter().map(|d| format!("const {}: {} = {};\n", d["n"].as_str().unwrap(), d["t"].as_str().unwrap(), expr_src(t, &d["e"]))).collect();
        let sizes = t == "usize";
        let body = if sizes {
            let nn = names[names.len() - 1];
            format!("pub fn main(x: u8) -> ([u8; {nn}], u8, usize) {{\n    let arr = [x; {nn}];\n    let mut cnt = 0u8;\n    for e in arr {{ cnt = cnt + 1u8; }}\n    (arr, cnt, {})\n}}\n", names[0])
        } else {
            format!("pub fn main(x: {t}) -> ({}, {t}) {{\n    ({}, x)\n}}\n", names.iter().map(|_| t.to_string()).collect::<Vec<_>>().join(", "), names.join(", "))
        };
        let src = format!("{decl_src}{body}");
        let deps = c["deps"].as_array().unwrap();
        let asg = c["asg"].as_array().unwrap();
        let missing: Vec<String> = c["missing"].as_array().unwrap().iter().map(|d| format!("{}::{}", d[0].as_str().unwrap(), d[1].as_str().unwrap())).collect();
        let mist: Vec<String> = c["mistyped"].as_array().unwrap().iter().map(|d| format!("{}::{}", d[0].as_str().unwrap(), d[1].as_str().unwrap())).collect();
        let ok = c["ok"].as_bool().unwrap();
        if ok { nontrivial += 1; }
        let mut report = |what: &str, observed: String, w: &mut std::io::BufWriter<std::fs::File>| {
            emit(w, &json!({"bad": true, "what": what, "src": src, "case": c, "observed": observed}));
        };
        let mut outcomes: Vec<String> = vec![];
        for _rep in 0..6 {
            // a fresh map every time: HashMap iteration orders differ between runs
            let mut consts: HashMap<String, HashMap<String, Literal>> = HashMap::new();
            for (i, d) in deps.iter().enumerate() {
                let (p, id) = (d[0].as_str().unwrap(), d[1].as_str().unwrap());
                let key = format!("{p}::{id}");
                let v = asg[i].as_i64().unwrap();
                if missing.contains(&key) { if missing.len() < deps.len() { consts.entry(p.to_string()).or_default(); } continue; }
                let l = if mist.contains(&key) { mistyped(t, v) } else { literal(t, v) };
                consts.entry(p.to_string()).or_default().insert(id.to_string(), l);
            }
            if c["extra"].as_bool().unwrap() { consts.entry("P9".into()).or_default().insert("Z".into(), Literal::True); }
            let r = guarded(|| compile_with_constants(&src, consts));
            let outcome = match r {
                Err(m) => format!("PANIC {m}"),
                Ok(Err(e)) => {
                    if let Error::CompileTimeError(CompileTimeError::CompilerError(errs)) = &e {
                        let mut miss: Vec<String> = errs.iter().filter_map(|x| if let CompilerError::MissingConstant(p, i, _) = x { Some(format!("{p}::{i}")) } else { None }).collect();
                        miss.sort();
                        let inval = errs.iter().filter(|x| matches!(x, CompilerError::InvalidLiteralType(_, _))).count();
                        format!("ERR missing={miss:?} invalid={inval}")
                    } else { format!("ERR other: {}", e.prettify(&src).chars().take(200).collect::<String>()) }
                }
                Ok(Ok(p)) => {
                    // evaluate on a few inputs
                    let mut outs = vec![];
                    let xt = if sizes { "u8" } else { t };
                    for x in [0i64, 1, 77] {
                        let circ = p.circuit.clone();
                        let inp = vec![to_bits(x, nbits(xt))];
                        match guarded(move || circ.eval(&inp)) { Ok(o) => outs.push(format!("{}{}", if o[0] { "P" } else { "" }, o[161..].iter().map(|b| if *b { '1' } else { '0' }).collect::<String>())), Err(m) => outs.push(format!("EVALPANIC {m}")) }
                    }
                    format!("OK {}", outs.join(","))
                }
            };
            outcomes.push(outcome);
        }
        // expectation
        let expected = if ok {
            let vals: Vec<i64> = c["vals"].as_array().unwrap().iter().map(|v| v.as_i64().unwrap()).collect();
            let mut outs = vec![];
            for x in [0i64, 1, 77] {
                let mut bits = vec![];
                if sizes {
                    let nn = vals[vals.len() - 1];
                    for _ in 0..nn { bits.extend(to_bits(x, 8)); }
                    bits.extend(to_bits(nn, 8));
                    bits.extend(to_bits(vals[0], 32));
                } else {
                    for v in &vals { bits.extend(to_bits(*v, nbits(t))); }
                    bits.extend(to_bits(x, nbits(t)));
                }
                outs.push(bits.iter().map(|b| if *b { '1' } else { '0' }).collect::<String>());
            }
            format!("OK {}", outs.join(","))
        } else {
            let mut m = missing.clone(); m.sort();
            format!("ERR missing={m:?} invalid={}", mist.len())
        };
        let distinct: std::collections::BTreeSet<&String> = outcomes.iter().collect();
        if distinct.len() > 1 || outcomes[0] != expected {
            bad += 1;
            let what = if outcomes.iter().any(|o| o.starts_with("PANIC")) { "compiler-panic" } else if !ok { "wrong-error" } else if outcomes.iter().any(|o| o.starts_with("ERR")) { "valid-constants-rejected" } else { "wrong-value" };
            report(what, format!("expected {expected}; observed {:?}", distinct), &mut w);
            continue;
        }
        // substitution: the same program with every constant replaced by its value
        if ok {
            let vals: Vec<i64> = c["vals"].as_array().unwrap().iter().map(|v| v.as_i64().unwrap()).collect();
            let sub_decls: String = decls.iter().enumerate().map(|(i, d)| format!("const {}: {} = {};\n", d["n"].as_str().unwrap(), d["t"].as_str().unwrap(), lit_src(t, vals[i]))).collect();
            let src2 = format!("{sub_decls}{body}");
            match guarded(|| compile(&src2)) {
                Ok(Ok(p2)) => {
                    let xt = if sizes { "u8" } else { t };
                    let mut outs = vec![];
                    for x in [0i64, 1, 77] { let circ = p2.circuit.clone(); let inp = vec![to_bits(x, nbits(xt))]; match guarded(move || circ.eval(&inp)) { Ok(o) => outs.push(format!("{}{}", if o[0] { "P" } else { "" }, o[161..].iter().map(|b| if *b { '1' } else { '0' }).collect::<String>())), Err(m) => outs.push(format!("EVALPANIC {m}")) } }
                    let got = format!("OK {}", outs.join(","));
                    if got != expected { bad += 1; report("substituted-program-differs", format!("substituted program gives {got}, expected {expected}"), &mut w); }
                }
                other => { bad += 1; report("substituted-program-rejected", format!("{:?}", other.map(|r| r.map(|_| ()).map_err(|e| e.prettify(&src2)))), &mut w); }
            }
        }
        // const-sized parameters, also nested inside a fixed-size array and a tuple: the literal API must accept the values of
        // the substituted types and the circuit must read them in the documented layout
        if ok && sizes {
            let vals: Vec<i64> = c["vals"].as_array().unwrap().iter().map(|v| v.as_i64().unwrap()).collect();
            let nn = vals[vals.len() - 1] as usize;
            let nname = names[names.len() - 1];
            let src3 = format!("{decl_src}pub fn main(rows: [[u8; {nname}]; 2], t: ([u8; {nname}], bool), x: u8) -> ([u8; {nname}], u8, bool) {{\n    (rows[1], x, t.1)\n}}\n");
            let mut consts: HashMap<String, HashMap<String, Literal>> = HashMap::new();
            for (i, d) in deps.iter().enumerate() { consts.entry(d[0].as_str().unwrap().to_string()).or_default().insert(d[1].as_str().unwrap().to_string(), literal(t, asg[i].as_i64().unwrap())); }
            match guarded(|| compile_with_constants(&src3, consts)) {
                Ok(Ok(p3)) => {
                    let row = |base: u64| Literal::Array((0..nn).map(|i| Literal::NumUnsigned(base + i as u64, UnsignedNumType::U8)).collect());
                    let args = vec![Literal::Array(vec![row(10), row(20)]), Literal::Tuple(vec![row(30), Literal::True]), Literal::NumUnsigned(77, UnsignedNumType::U8)];
                    let mut inputs = vec![];
                    let mut refused = None;
                    for (i, a) in args.iter().enumerate() {
                        match guarded(|| p3.literal_arg(i, a.clone()).map(|x| x.as_bits())) { Ok(Ok(b)) => inputs.push(b), Ok(Err(e)) => { refused = Some(format!("literal_arg({i}, {a}) refused: {e:?}")); break; } Err(m) => { refused = Some(format!("literal_arg({i}, {a}) panicked: {m}")); break; } }
                    }
                    if let Some(m) = refused { bad += 1; report("const-sized-parameter-refused", m, &mut w); }
                    else {
                        let mut exp: Vec<bool> = vec![];
                        for i in 0..nn { exp.extend(to_bits(20 + i as i64, 8)); }
                        exp.extend(to_bits(77, 8)); exp.push(true);
                        let circ = p3.circuit.clone();
                        match guarded(move || circ.eval(&inputs)) {
                            Ok(o) => { if o[0] || o[161..] != exp[..] { bad += 1; report("const-sized-parameter-value", format!("output {:?}", &o[161..]), &mut w); } }
                            Err(m) => { bad += 1; report("const-sized-parameter-value", format!("eval panicked: {m}"), &mut w); }
                        }
                    }
                }
                Ok(Err(e)) => { if nn > 0 { bad += 1; report("const-sized-parameter-program-rejected", e.prettify(&src3).chars().take(300).collect(), &mut w); } }
                Err(m) => { bad += 1; report("compiler-panic", format!("const-sized parameters: {m}"), &mut w); }
            }
        }
    }
    emit(&mut w, &json!({"summary": true, "n": n, "bad": bad, "ok_cases": nontrivial}));
}
